import ParsecVerif.Proofs.DataRepo
/-!
# C25 — data repository entries are reclaimed exactly when unused

Machine: `ParsecVerif.DataRepo` (one transition per critical section of `parsec/datarepo.c`).
Threads: any number of creators (`lookup_entry_and_create` then `addto_usage_limit n`) and users
(`used_once`) on any keys; a schedule is any list of thread ids.  The usage protocol is the guard
`useOk` of the machine (hypothesis of the property): a use is issued only while the entry exists and
while the uses issued are fewer than the limits announced or promised by creators that obtained it.

Specification-level quantities (functions of the threads' program points only — they do not read the
entry): `holders s k` = creators between their create and their announcement, `announced s k` = sum
of the limits announced so far, `uses s k` = uses done so far — all three over the WHOLE history
of key `k`.  Because every finished incarnation is balanced, "since its last insertion" and "over
the whole history" coincide: `announced − uses` is what is outstanding on the current incarnation.
-/
namespace ParsecVerif.C25
open ParsecVerif.DataRepo

/-! ## shape of one step on the counters -/

theorem cell_shape (ok : Bool) (c : Cell) (th : Thr) :
    c.ins ≤ (stepCell ok c th).1.ins ∧ (stepCell ok c th).1.ins ≤ c.ins + 1 ∧
    c.rc ≤ (stepCell ok c th).1.rc ∧ (stepCell ok c th).1.rc ≤ c.rc + 1 ∧
    ((stepCell ok c th).1.rc = c.rc + 1 → (stepCell ok c th).1.ins = c.ins) ∧
    ((stepCell ok c th).1.ins = c.ins + 1 → c.ent = none) := by
  obtain ⟨key, pc, n⟩ := th
  cases pc <;> simp only [stepCell, cs1, cs2, csAnnounce, csUse]
  · cases c.ent <;> simp
  · cases c.ent <;> simp
  · cases c.ent with
    | none => simp
    | some e => simp only [reclaimIf]; split <;> simp
  · simp
  · cases ok with
    | false => simp
    | true =>
      cases c.ent with
      | none => simp
      | some e => simp only [reclaimIf, if_true]; split <;> simp
  · simp

theorem step_mono (s : State) (t k : Nat) :
    (s.cell k).ins ≤ ((step s t).cell k).ins ∧ ((step s t).cell k).ins ≤ (s.cell k).ins + 1 ∧
    (s.cell k).rc ≤ ((step s t).cell k).rc ∧ ((step s t).cell k).rc ≤ (s.cell k).rc + 1 ∧
    (((step s t).cell k).rc = (s.cell k).rc + 1 → ((step s t).cell k).ins = (s.cell k).ins) ∧
    (((step s t).cell k).ins = (s.cell k).ins + 1 → present s k = false) := by
  unfold step stepG
  cases hth : s.thr[t]? with
  | none => simp
  | some th =>
    simp only [setCell]
    by_cases hk : k = th.key
    · subst hk
      simp only [if_true, stepThr, present]
      have := cell_shape (!true || useOk s th.key) (s.cell th.key) th
      refine ⟨this.1, this.2.1, this.2.2.1, this.2.2.2.1, this.2.2.2.2.1, fun h => ?_⟩
      rw [this.2.2.2.2.2 h]; rfl
    · simp [if_neg hk]

/-! ## the property -/

/-- **C25, presence.**  For every set of creators and users, every key and EVERY interleaving of
    their critical sections: the entry of key `k` is in the table if and only if a creator still
    holds it or the uses done differ from the limits announced. -/
theorem C25_present (descr : List (Bool × Nat × Nat)) (sched : List Nat) (k : Nat) :
    present (run (init descr) sched) k = true ↔
      (0 < holders (run (init descr) sched) k ∨ announced (run (init descr) sched) k ≠ uses (run (init descr) sched) k) := by
  have h := inv_run _ sched (inv_init descr) k
  generalize run (init descr) sched = s at h
  unfold present
  cases he : (s.cell k).ent with
  | none =>
    obtain ⟨h1, h2, _⟩ := h.absent he
    simp; omega
  | some e =>
    obtain ⟨h1, h2, h3, _⟩ := h.there e he
    simp; omega

/-- the same, one step further (used below) -/
theorem present_iff_of_inv (s : State) (h : Inv s) (k : Nat) :
    present s k = true ↔ (0 < holders s k ∨ announced s k ≠ uses s k) := by
  have h := h k
  unfold present
  cases he : (s.cell k).ent with
  | none =>
    obtain ⟨h1, h2, _⟩ := h.absent he
    simp; omega
  | some e =>
    obtain ⟨h1, h2, h3, _⟩ := h.there e he
    simp; omega

theorem count_of_inv (s : State) (h : Inv s) (k : Nat) :
    (s.cell k).rc + (if present s k = true then 1 else 0) = (s.cell k).ins := by
  have h := h k
  unfold present
  cases he : (s.cell k).ent with
  | none => obtain ⟨_, _, h3⟩ := h.absent he; simp; omega
  | some e => obtain ⟨_, _, _, h4⟩ := h.there e he; simp; omega

/-- **C25, reclaimed exactly once.**  In every reachable state every incarnation (insertion) of the
    entry of key `k` except a present one has been reclaimed exactly once and none twice
    (`rc + [present] = ins`); and the next section of any thread `t` reclaims (by exactly one)
    if and only if the entry was present and after that section no creator holds it and all
    announced uses have been done. -/
theorem C25_reclaim_once (descr : List (Bool × Nat × Nat)) (sched : List Nat) (k t : Nat) :
    ((run (init descr) sched).cell k).rc + (if present (run (init descr) sched) k = true then 1 else 0)
        = ((run (init descr) sched).cell k).ins ∧
    ((step (run (init descr) sched) t).cell k).rc ≤ ((run (init descr) sched).cell k).rc + 1 ∧
    ((run (init descr) sched).cell k).rc ≤ ((step (run (init descr) sched) t).cell k).rc ∧
    (((step (run (init descr) sched) t).cell k).rc = ((run (init descr) sched).cell k).rc + 1 ↔
      (present (run (init descr) sched) k = true ∧ holders (step (run (init descr) sched) t) k = 0 ∧
        announced (step (run (init descr) sched) t) k = uses (step (run (init descr) sched) t) k)) := by
  have h := inv_run _ sched (inv_init descr)
  generalize run (init descr) sched = s at h
  have h' := inv_step s t h
  have c := count_of_inv s h k
  have c' := count_of_inv _ h' k
  have p' := present_iff_of_inv _ h' k
  obtain ⟨m1, m2, m3, m4, m5, m6⟩ := step_mono s t k
  refine ⟨c, m4, m3, ?_, ?_⟩
  · intro hr
    have hi := m5 hr
    by_cases hp : present s k = true
    · by_cases hp' : present (step s t) k = true
      · simp [hp, hp'] at c c'; omega
      · refine ⟨hp, ?_⟩
        have : ¬(0 < holders (step s t) k ∨ announced (step s t) k ≠ uses (step s t) k) := fun x => hp' (p'.2 x)
        omega
    · by_cases hp' : present (step s t) k = true
      · simp [hp, hp'] at c c'; omega
      · simp [hp, hp'] at c c'; omega
  · intro ⟨hp, hH, hA⟩
    have hp' : ¬ present (step s t) k = true := by
      intro x; have := p'.1 x; omega
    simp [hp] at c
    simp [hp'] at c'
    omega

/-- **C25, never early.**  While, after a section of any thread, a creator still holds the entry of
    key `k` or announced uses are outstanding, that section did not reclaim it: the same incarnation
    is still in the table. -/
theorem C25_no_early (descr : List (Bool × Nat × Nat)) (sched : List Nat) (k t : Nat)
    (hp : present (run (init descr) sched) k = true)
    (hout : 0 < holders (step (run (init descr) sched) t) k ∨
            announced (step (run (init descr) sched) t) k ≠ uses (step (run (init descr) sched) t) k) :
    present (step (run (init descr) sched) t) k = true ∧
    ((step (run (init descr) sched) t).cell k).rc = ((run (init descr) sched).cell k).rc ∧
    ((step (run (init descr) sched) t).cell k).ins = ((run (init descr) sched).cell k).ins := by
  have h := inv_run _ sched (inv_init descr)
  generalize run (init descr) sched = s at h hp hout
  have h' := inv_step s t h
  have c := count_of_inv s h k
  have c' := count_of_inv _ h' k
  have p' := (present_iff_of_inv _ h' k).2 hout
  obtain ⟨m1, m2, m3, m4, m5, m6⟩ := step_mono s t k
  simp [hp] at c
  simp [p'] at c'
  have : ((step s t).cell k).ins ≠ (s.cell k).ins + 1 := by
    intro x; have := m6 x; simp [hp] at this
  exact ⟨p', by omega, by omega⟩

/-- **C25, the protocol keeps every call on an existing entry.**  No call ever runs on a missing
    entry (`assert(NULL != e)`); a creator about to announce finds its entry with `retained > 0`
    (`assert(e->retained > 0)`); and the budget clause of the protocol alone already implies that
    the entry exists. -/
theorem C25_no_fault (descr : List (Bool × Nat × Nat)) (sched : List Nat) (k : Nat) :
    ((run (init descr) sched).cell k).fault = false ∧
    (∀ (t : Nat) (th : Thr), (run (init descr) sched).thr[t]? = some th → th.pc = Pc.hold → th.key = k →
        ∃ e, ((run (init descr) sched).cell k).ent = some e ∧ 0 < e.ret) ∧
    (uses (run (init descr) sched) k < announced (run (init descr) sched) k + promised (run (init descr) sched) k →
        present (run (init descr) sched) k = true) := by
  have h := inv_run _ sched (inv_init descr)
  generalize run (init descr) sched = s at h
  refine ⟨(h k).nofault, ?_, ?_⟩
  · intro t th hth hpc hkey
    obtain ⟨hi, hx⟩ := getElem_of_getElem? hth
    have hle := contrib_le_meas wHold k s.thr t hi
    rw [hx] at hle
    simp only [contrib, wHold, hkey, hpc, if_true] at hle
    cases he : (s.cell k).ent with
    | none =>
      have := ((h k).absent he).1
      unfold holders at this; omega
    | some e =>
      have := ((h k).there e he).1
      unfold holders at this
      exact ⟨e, rfl, by omega⟩
  · intro hb
    apply (present_iff_of_inv s h k).2
    by_cases hH : 0 < holders s k
    · exact Or.inl hH
    · have hz : holders s k = 0 := by omega
      have := pend_zero_of_hold_zero k s.thr hz
      unfold promised at hb
      right; omega

/-- **C25, nothing leaks.**  Once every thread has returned: the entry of key `k` is present iff
    uses are missing, and if all announced uses were done it is absent, every incarnation was
    reclaimed exactly once and every mempool allocation made for the key was freed exactly once
    (`al = di + rc`). -/
theorem C25_final (descr : List (Bool × Nat × Nat)) (sched : List Nat) (k : Nat)
    (hf : finished (run (init descr) sched)) :
    (present (run (init descr) sched) k = true ↔ announced (run (init descr) sched) k ≠ uses (run (init descr) sched) k) ∧
    (announced (run (init descr) sched) k = uses (run (init descr) sched) k →
      ((run (init descr) sched).cell k).rc = ((run (init descr) sched).cell k).ins ∧
      ((run (init descr) sched).cell k).al = ((run (init descr) sched).cell k).di + ((run (init descr) sched).cell k).rc) := by
  have h := inv_run _ sched (inv_init descr)
  generalize run (init descr) sched = s at h hf
  have hH : holders s k = 0 := by
    apply meas_zero_of_forall
    intro th hth
    unfold contrib wHold
    rcases hf th hth with hp | hp <;> simp [hp]
  have hM : inflight s k = 0 := by
    apply meas_zero_of_forall
    intro th hth
    unfold contrib wMid
    rcases hf th hth with hp | hp <;> simp [hp]
  have p := present_iff_of_inv s h k
  have c := count_of_inv s h k
  have hpool := (h k).pool
  refine ⟨by rw [p]; omega, fun hA => ?_⟩
  have hp : ¬ present s k = true := by intro x; have := p.1 x; omega
  simp [hp] at c
  omega

/-! ## progress -/

def isCre : Pc → Bool
  | .c0 => true | .c1 => true | .hold => true | .done => true | .u0 => false | .udone => false

def wBud (t : Thr) : Nat := if isCre t.pc = true then t.n else 0      -- a creator's limit, whatever its progress
def wUsr (t : Thr) : Nat := if isCre t.pc = true then 0 else 1        -- a user, whatever its progress

/-- number of user threads on key `k` -/
def nUsers (descr : List (Bool × Nat × Nat)) (k : Nat) : Nat :=
  (descr.map fun d => if d.1 = true ∧ d.2.1 = k then 1 else 0).sum
/-- sum of the limits of the creator threads on key `k` -/
def budget (descr : List (Bool × Nat × Nat)) (k : Nat) : Nat :=
  (descr.map fun d => if d.1 = false ∧ d.2.1 = k then d.2.2 else 0).sum

theorem meas_init_usr (descr : List (Bool × Nat × Nat)) (k : Nat) : meas wUsr k (init descr).thr = nUsers descr k := by
  unfold init nUsers meas
  induction descr with
  | nil => rfl
  | cons d ds ih =>
    simp only [List.map_cons, List.sum_cons] at *
    rw [ih]
    obtain ⟨b, key, n⟩ := d
    cases b <;> by_cases hk : key = k <;> simp [mkThr, wUsr, isCre, hk]

theorem meas_init_bud (descr : List (Bool × Nat × Nat)) (k : Nat) : meas wBud k (init descr).thr = budget descr k := by
  unfold init budget meas
  induction descr with
  | nil => rfl
  | cons d ds ih =>
    simp only [List.map_cons, List.sum_cons] at *
    rw [ih]
    obtain ⟨b, key, n⟩ := d
    cases b <;> by_cases hk : key = k <;> simp [mkThr, wBud, isCre, hk]

theorem stepCell_class (ok : Bool) (c : Cell) (th : Thr) : isCre (stepCell ok c th).2 = isCre th.pc := by
  obtain ⟨key, pc, n⟩ := th
  cases pc <;> simp only [stepCell, cs1, cs2]
  · cases c.ent <;> rfl
  · cases c.ent <;> rfl
  · rfl
  · cases ok <;> rfl

/-- a weight that only looks at (key, limit, creator-or-user) is constant along every run -/
theorem meas_step_class (w : Thr → Nat)
    (hw : ∀ (th : Thr) (pc' : Pc), isCre pc' = isCre th.pc → w { th with pc := pc' } = w th)
    (s : State) (t k : Nat) : meas w k (step s t).thr = meas w k s.thr := by
  unfold step stepG
  cases hth : s.thr[t]? with
  | none => rfl
  | some th =>
    obtain ⟨hi, hx⟩ := getElem_of_getElem? hth
    simp only []
    have h := meas_set w k s.thr t { th with pc := (stepThr true s th).2 } hi
    rw [hx] at h
    have hc : contrib w k { th with pc := (stepThr true s th).2 } = contrib w k th := by
      unfold contrib
      have := hw th (stepThr true s th).2 (stepCell_class _ _ th)
      simp only [this]
    omega

theorem meas_run_class (w : Thr → Nat)
    (hw : ∀ (th : Thr) (pc' : Pc), isCre pc' = isCre th.pc → w { th with pc := pc' } = w th)
    (s : State) (sched : List Nat) (k : Nat) : meas w k (run s sched).thr = meas w k s.thr := by
  unfold run
  induction sched generalizing s with
  | nil => rfl
  | cons t ts ih => rw [List.foldl_cons, ih, meas_step_class w hw]

theorem wBud_class (th : Thr) (pc' : Pc) (h : isCre pc' = isCre th.pc) : wBud { th with pc := pc' } = wBud th := by
  unfold wBud; simp only [h]
theorem wUsr_class (th : Thr) (pc' : Pc) (h : isCre pc' = isCre th.pc) : wUsr { th with pc := pc' } = wUsr th := by
  unfold wUsr; simp only [h]

def wU0 (t : Thr) : Nat := if t.pc = .u0 then 1 else 0

theorem meas_add (f g : Thr → Nat) (k : Nat) (l : List Thr) :
    meas (fun t => f t + g t) k l = meas f k l + meas g k l := by
  unfold meas
  induction l with
  | nil => rfl
  | cons a t ih =>
    simp only [List.map_cons, List.sum_cons] at *
    rw [ih]
    by_cases h : a.key = k <;> simp [h] <;> omega

/-- an enabled thread moves: its program point changes -/
theorem enabled_moves (s : State) (t : Nat) (h : enabled s t = true) :
    ∃ th, s.thr[t]? = some th ∧ ((step s t).thr[t]?.map fun x => x.pc) ≠ some th.pc := by
  unfold enabled at h
  cases hth : s.thr[t]? with
  | none => simp [hth] at h
  | some th =>
    obtain ⟨hi, hx⟩ := getElem_of_getElem? hth
    refine ⟨th, rfl, ?_⟩
    simp only [hth] at h
    unfold step stepG
    simp only [hth, List.getElem?_set_self hi, Option.map_some, stepThr, Bool.not_true, Bool.false_or]
    obtain ⟨key, pc, n⟩ := th
    cases pc <;> simp only [stepCell, cs1, cs2] at h ⊢
    · cases (s.cell key).ent <;> simp
    · cases (s.cell key).ent <;> simp
    · simp
    · simp at h
    · simp [h]
    · simp at h

/-- **C25, progress.**  If on every key the number of users equals the sum of the creators' limits
    (the matching uses), then in every reachable state in which some call has not returned, some
    thread is enabled: the protocol never blocks the system, so every fair run ends with all
    calls returned — where, by `C25_final`, every entry has been reclaimed exactly once. -/
theorem C25_progress (descr : List (Bool × Nat × Nat)) (sched : List Nat)
    (hb : ∀ k, nUsers descr k = budget descr k)
    (hnf : ¬ finished (run (init descr) sched)) :
    ∃ t, enabled (run (init descr) sched) t = true := by
  have h := inv_run _ sched (inv_init descr)
  have eB := fun k => (meas_run_class wBud wBud_class (init descr) sched k).trans (meas_init_bud descr k)
  have eU := fun k => (meas_run_class wUsr wUsr_class (init descr) sched k).trans (meas_init_usr descr k)
  generalize run (init descr) sched = s at h hnf eB eU
  by_cases hc : ∃ th ∈ s.thr, th.pc = .c0 ∨ th.pc = .c1 ∨ th.pc = .hold
  · obtain ⟨th, hm, hp⟩ := hc
    obtain ⟨t, hi, hx⟩ := List.getElem_of_mem hm
    refine ⟨t, ?_⟩
    unfold enabled
    rw [List.getElem?_eq_getElem hi, hx]
    rcases hp with hp | hp | hp <;> simp [hp]
  · -- every creator has announced; some user has not run
    have hall : ∀ th ∈ s.thr, th.pc = .done ∨ th.pc = .u0 ∨ th.pc = .udone := by
      intro th hm
      have : ¬ (th.pc = .c0 ∨ th.pc = .c1 ∨ th.pc = .hold) := fun x => hc ⟨th, hm, x⟩
      cases hp : th.pc <;> simp_all
    have hex : ∃ th ∈ s.thr, th.pc = .u0 := by
      apply Classical.byContradiction
      intro hno
      apply hnf
      intro th hm
      rcases hall th hm with hp | hp | hp
      · exact Or.inl hp
      · exact absurd ⟨th, hm, hp⟩ hno
      · exact Or.inr hp
    obtain ⟨th, hm, hp⟩ := hex
    obtain ⟨t, hi, hx⟩ := List.getElem_of_mem hm
    refine ⟨t, ?_⟩
    unfold enabled
    rw [List.getElem?_eq_getElem hi, hx]
    simp only [hp]
    -- budget of key k = announced, users of key k = waiting + done
    have hA : meas wBud th.key s.thr = announced s th.key := by
      unfold announced
      apply meas_congr
      intro x hxm
      unfold contrib wBud wAnn
      rcases hall x hxm with hq | hq | hq <;> simp [hq, isCre]
    have hU : meas wUsr th.key s.thr = meas wU0 th.key s.thr + uses s th.key := by
      unfold uses
      rw [← meas_add]
      apply meas_congr
      intro x hxm
      unfold contrib wUsr wU0 wUse
      rcases hall x hxm with hq | hq | hq <;> simp [hq, isCre]
    have h0 : 1 ≤ meas wU0 th.key s.thr := by
      have := contrib_le_meas wU0 th.key s.thr t hi
      rw [hx] at this
      simpa [contrib, wU0, hp] using this
    have hk := hb th.key
    rw [← eB th.key, ← eU th.key, hA, hU] at hk
    have hpres : present s th.key = true := (present_iff_of_inv s h th.key).2 (Or.inr (by omega))
    unfold useOk
    simp only [hpres, Bool.true_and, decide_eq_true_eq]
    omega

/-! ## termination measure -/

def rank : Pc → Nat
  | .c0 => 3 | .c1 => 2 | .hold => 1 | .done => 0 | .u0 => 1 | .udone => 0

def rankSum (s : State) : Nat := (s.thr.map fun t => rank t.pc).sum

theorem stepCell_rank (ok : Bool) (c : Cell) (th : Thr) :
    rank (stepCell ok c th).2 ≤ rank th.pc ∧
    ((th.pc ≠ .done ∧ th.pc ≠ .udone ∧ (th.pc = .u0 → ok = true)) → rank (stepCell ok c th).2 < rank th.pc) := by
  obtain ⟨key, pc, n⟩ := th
  cases pc <;> simp only [stepCell, cs1, cs2]
  · cases c.ent <;> simp [rank]
  · cases c.ent <;> simp [rank]
  · simp [rank]
  · simp [rank]
  · cases ok <;> simp [rank]
  · simp [rank]

/-- **C25, termination.**  No step increases the number of sections still to run (at most 3 per
    creator, 1 per user) and every enabled step decreases it: with `C25_progress`, every run of a
    balanced system reaches, after at most `3·creators + users` effective steps, the state in which
    all calls returned. -/
theorem C25_terminates (s : State) (t : Nat) :
    rankSum (step s t) ≤ rankSum s ∧ (enabled s t = true → rankSum (step s t) < rankSum s) := by
  unfold step stepG enabled
  cases hth : s.thr[t]? with
  | none => simp
  | some th =>
    obtain ⟨hi, hx⟩ := getElem_of_getElem? hth
    simp only [rankSum, List.map_set]
    have h := ParsecVerif.Interleave.sum_set (s.thr.map fun t => rank t.pc) t (rank (stepThr true s th).2) (by simpa using hi)
    simp only [List.getElem_map, hx] at h
    have r := stepCell_rank (!true || useOk s th.key) (s.cell th.key) th
    simp only [stepThr] at h ⊢
    refine ⟨by omega, fun he => ?_⟩
    have : rank (stepCell (!true || useOk s th.key) (s.cell th.key) th).2 < rank th.pc := by
      apply r.2
      cases hp : th.pc <;> simp_all
    omega

example : ∀ k, nUsers [(false, 7, 2), (false, 7, 1), (true, 7, 0), (true, 7, 0), (true, 7, 0), (false, 4, 0)] k =
               budget [(false, 7, 2), (false, 7, 1), (true, 7, 0), (true, 7, 0), (true, 7, 0), (false, 4, 0)] k := by
  intro k
  by_cases h7 : 7 = k <;> by_cases h4 : 4 = k <;> simp [nUsers, budget, h7, h4]

/-! ## the protocol is needed -/

/-- Without the guard (a use issued although the announced limit is exhausted), `used_once` runs on
    an entry that was already reclaimed; with the guard the same schedule leaves that user waiting. -/
theorem protocol_needed :
    ((runRaw (init [(false, 0, 1), (true, 0, 0), (true, 0, 0)]) [0, 0, 0, 1, 2]).cell 0).fault = true ∧
    ((run (init [(false, 0, 1), (true, 0, 0), (true, 0, 0)]) [0, 0, 0, 1, 2]).cell 0).fault = false ∧
    (run (init [(false, 0, 1), (true, 0, 0), (true, 0, 0)]) [0, 0, 0, 1, 2]).thr[2]? = some ⟨0, .u0, 0⟩ := by
  decide

/-! ## non-vacuity -/

/-- two creators both miss in their first section (the re-check of the second one finds the first
    one's entry and frees its private copy), uses overtake the announcements, and the last
    announcement reclaims: one incarnation, reclaimed once, allocations balanced. -/
example :
    (run (init [(false, 7, 2), (false, 7, 1), (true, 7, 0), (true, 7, 0), (true, 7, 0)]) [0, 1, 0, 1, 2, 3, 4, 0, 1]).cell 7
      = ⟨none, 2, 1, 1, 1, false⟩ ∧
    finished (run (init [(false, 7, 2), (false, 7, 1), (true, 7, 0), (true, 7, 0), (true, 7, 0)]) [0, 1, 0, 1, 2, 3, 4, 0, 1]) := by
  refine ⟨by decide, ?_⟩
  intro th hth
  revert th
  decide

/-- an intermediate state with the entry present, retained twice and one use ahead of the limits -/
example :
    ((run (init [(false, 7, 2), (false, 7, 1), (true, 7, 0)]) [0, 1, 0, 1, 2]).cell 7).ent = some ⟨1, 0, 2⟩ ∧
    holders (run (init [(false, 7, 2), (false, 7, 1), (true, 7, 0)]) [0, 1, 0, 1, 2]) 7 = 2 ∧
    uses (run (init [(false, 7, 2), (false, 7, 1), (true, 7, 0)]) [0, 1, 0, 1, 2]) 7 = 1 := by
  decide

/-- two incarnations of the same key -/
example :
    (run (init [(false, 3, 1), (true, 3, 0), (false, 3, 0)]) [0, 0, 0, 1, 2, 2, 2]).cell 3 = ⟨none, 2, 0, 2, 2, false⟩ := by
  decide

end ParsecVerif.C25
