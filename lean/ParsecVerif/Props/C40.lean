import ParsecVerif.Proofs.VpMap
import ParsecVerif.Proofs.VpMapRender2
/-!
# C40 — virtual-process maps match their specification

Model: `ParsecVerif.VpMap` (mirrors parsec/vpmap.c and the bind_map parser of parsec/parsec.c).
Quantification: every specification string (`List Char`), every number `R` of binding resources, every
thread count, every socket layout, every allowed-core list.  `ub` = the C code performs an out-of-bounds
access / NULL dereference / read of uninitialised memory / signed overflow on that input.

The property statement is TRUE of the code for: the flat map (default, `flat`, NULL, unknown and malformed
specifications, unreadable files) when `1 ≤ nb_cores ≤ R`, the hwloc map, the range and list modes of
parse_binding_parameter, every bind_map that names at most as many cores as there are threads, the default
placement.  It is FALSE (theorems below, each replayed on the real code by `checks/C40.py`) for
`rr:n:p:c`, for every readable vpmap file, for oversubscribed flat maps, for the hex-mask mode (core `R`),
for short core lists (bit 2^32-1), and the three parsers have one-past-the-end reads / overflows.
-/
namespace ParsecVerif.C40
open ParsecVerif.VpMap ParsecVerif.VpMap.CpuSet

/-- what the property asks of one thread on `R` binding resources: a non-empty set of valid indices -/
def ThrBound (R : Nat) (t : Thr) : Prop := ∃ c, t.cpuset = some c ∧ c.bits ≠ [] ∧ c.Within R

/-- candidate sets of different threads do not overlap -/
def PairDisjoint (vp : Vp) : Prop :=
  vp.Pairwise (fun a b => ∀ ca cb, a.cpuset = some ca → b.cpuset = some cb → Disjoint ca cb)

/-! ## flat map -/

/-- **Counts.**  `parsec_vpmap_init_from_flat(n)`, `n ≥ 1`: one VP, `n` threads, total `n` — for every `R`,
    oversubscribed or not. -/
theorem flat_counts (R : Nat) (sing n : Int) (hn : 1 ≤ n) :
    ∃ vp, flat R sing n = .ok [vp] n ∧ vp.length = n.toNat := by
  refine ⟨flatVp R sing n, ?_, ?_⟩
  · unfold flat; rw [flatN_pos R n hn]; congr 1; omega
  · rw [flatVp_length, flatN_pos R n hn]

/-- **The flat map meets the property** whenever it is not oversubscribed: `1 ≤ n ≤ R` threads, each with a
    non-empty candidate set inside `[0,R)`, pairwise disjoint — for every value of the singlify parameter. -/
theorem flat_spec (R : Nat) (sing n : Int) (h1 : 1 ≤ n) (h2 : n ≤ R) :
    ∃ vp, flat R sing n = .ok [vp] n ∧ vp.length = n.toNat ∧ (∀ t ∈ vp, ThrBound R t) ∧ PairDisjoint vp := by
  obtain ⟨hs1, hs2⟩ := flatStep_bounds R sing n h1 h2
  refine ⟨flatVp R sing n, ?_, ?_, ?_, flatVp_pairwise R sing n hs1⟩
  · unfold flat; rw [flatN_pos R n h1]; congr 1; omega
  · rw [flatVp_length, flatN_pos R n h1]
  · intro t ht
    obtain ⟨id, hid, rfl⟩ := (mem_flatVp R sing n t).1 ht
    rw [flatN_pos R n h1] at hid
    refine ⟨_, flatThr_cpuset _ id hs1, ?_, rfl, ?_⟩
    · intro h
      have : (List.range' (id * flatStep R sing n) (flatStep R sing n)).length = 0 := by
        simp only at h; rw [h]; rfl
      simp at this; omega
    · intro b hb
      simp only at hb
      rw [mem_range'] at hb
      have hm : (id + 1) * flatStep R sing n ≤ n.toNat * flatStep R sing n := Nat.mul_le_mul_right _ hid
      have h3 : (id + 1) * flatStep R sing n = id * flatStep R sing n + flatStep R sing n := Nat.succ_mul ..
      omega

example : ∃ vp, flat 16 0 4 = .ok [vp] 4 ∧ vp.length = 4 ∧ (∀ t ∈ vp, ThrBound 16 t) ∧ PairDisjoint vp :=
  flat_spec 16 0 4 (by decide) (by decide)

/-- **Finding (oversubscription).**  With more threads than binding resources and the singlify parameter
    not -1, `step = R / n = 0` and `hwloc_bitmap_set_range(set, 0, -1)` makes EVERY thread's candidate set the
    infinite set `[0, ∞)`, with `nbcores = 0`. -/
theorem flat_oversubscribed_unbounded (R : Nat) (sing n : Int) (hs : sing ≠ -1) (hn : (R : Int) < n) :
    ∀ t ∈ flatVp R sing n, t.nbcores = 0 ∧ t.cpuset = some ⟨[], some 0⟩ ∧ ∀ c, t.cpuset = some c → ¬ c.Within R := by
  intro t ht
  obtain ⟨id, _, rfl⟩ := (mem_flatVp R sing n t).1 ht
  have hstep : flatStep R sing n = 0 := by
    unfold flatStep
    rw [if_neg hs, flatN_pos R n (by omega)]
    exact Nat.div_eq_of_lt (by omega)
  rw [hstep]
  refine ⟨rfl, flatThr_zero id, ?_⟩
  intro c hc
  rw [flatThr_zero] at hc
  cases hc
  intro hw
  exact absurd hw.1 (by simp)

example : ∀ t ∈ flatVp 16 0 17, t.nbcores = 0 ∧ t.cpuset = some ⟨[], some 0⟩ ∧ ∀ c, t.cpuset = some c → ¬ c.Within 16 :=
  flat_oversubscribed_unbounded 16 0 17 (by decide) (by decide)

/-- the full statement for the flat map: every thread bound inside `[0,R)`, whatever the thread count -/
def FlatInRange : Prop := ∀ (R : Nat) (sing n : Int), 1 ≤ R → 1 ≤ n → ∀ t ∈ flatVp R sing n, ThrBound R t

/-- `FlatInRange` is false of the code (oversubscription); `flat_spec` is the part that holds (`n ≤ R`). -/
theorem flat_in_range_false : ¬ FlatInRange := by
  intro h
  have hm : flatThr (flatStep 16 0 17) 0 ∈ flatVp 16 0 17 := (mem_flatVp 16 0 17 _).2 ⟨0, by decide, rfl⟩
  obtain ⟨c, hc, _, hw⟩ := h 16 0 17 (by decide) (by decide) _ hm
  exact (flat_oversubscribed_unbounded 16 0 17 (by decide) (by decide) _ hm).2.2 c hc hw

/-- **Finding (oversubscription, early singlify).**  With `singlify = -1` thread `R` exists and is given the
    single core `R`, which is not a binding resource. -/
theorem flat_early_singlify_out_of_range (R : Nat) (n : Int) (hn : (R : Int) < n) :
    ∃ t ∈ flatVp R (-1) n, t.cpuset = some (CpuSet.single R) ∧ ¬ (CpuSet.single R).Within R := by
  refine ⟨flatThr (flatStep R (-1) n) R, ?_, ?_, ?_⟩
  · exact (mem_flatVp R (-1) n _).2 ⟨R, by rw [flatN_pos R n (by omega)]; omega, rfl⟩
  · have : flatStep R (-1) n = 1 := by unfold flatStep; simp
    rw [this, flatThr_cpuset 1 R (by omega)]
    simp [CpuSet.single, List.range']
  · intro h
    have := h.2 R (by simp [CpuSet.single])
    omega

/-! ## hwloc map -/

/-- **Counts and bindings of the hwloc map.**  Thread number `k` (over all VPs in order) is bound to core `k`,
    there are `min n cores` threads (all cores when `n ≤ 0`), in at most one VP per socket. -/
theorem hwloc_counts (socks : List Nat) (n : Int) :
    (hwGoVps socks 0 n).flatten.map (·.cpuset) = (List.range (hwCount socks n)).map (fun k => some (CpuSet.single k))
    ∧ (hwGoVps socks 0 n).length ≤ socks.length
    ∧ (1 ≤ n → hwCount socks n = min n.toNat socks.sum) := by
  refine ⟨?_, hwGoVps_length_le socks 0 n, ?_⟩
  · have := hwGoVps_cpusets socks 0 n
    simpa using this
  · intro h
    unfold hwCount
    split <;> omega

/-- every thread of the hwloc map is bound to one core below the number of cores of the topology -/
theorem hwloc_in_range (socks : List Nat) (n : Int) :
    ∀ t ∈ (hwGoVps socks 0 n).flatten, ∃ c, t.cpuset = some (CpuSet.single c) ∧ c < socks.sum := by
  intro t ht
  have h := (hwloc_counts socks n).1
  have hm : t.cpuset ∈ (hwGoVps socks 0 n).flatten.map (·.cpuset) := List.mem_map_of_mem ht
  rw [h] at hm
  simp only [List.mem_map, List.mem_range] at hm
  obtain ⟨k, hk, hk2⟩ := hm
  refine ⟨k, hk2.symm, ?_⟩
  have : hwCount socks n ≤ socks.sum := by unfold hwCount; split <;> omega
  omega

example : (hwGoVps [3, 3] 0 4).map List.length = [3, 1] := by decide

/-- **Finding.**  `parsec_nb_total_threads` is not corrected when the thread budget ends inside a socket:
    4 threads on one 16-core socket report 16. -/
theorem hwloc_total_wrong :
    hwlocInit ⟨16, 0, [16], fun _ => none⟩ 4 = .ok [hwVp 0 4] 16 ∧ (hwVp 0 4).length = 4 := by
  constructor <;> rfl

/-! ## parsec_vpmap_init: rejection of malformed specifications -/

theorem init_null_is_flat (e : Env) (nb : Int) : vpmapInit e none nb = flatC e nb := rfl

/-- **Rejection, no partial state.**  A specification that is none of `flat…`, `hwloc…`, `file:…`, `rr:…`
    (after an optional `display:`) produces exactly the map of the default. -/
theorem init_unknown_is_flat (e : Env) (s : Str) (nb : Int)
    (h1 : strFlat.isPrefixOf (stripDisplay s) = false) (h2 : strHwloc.isPrefixOf (stripDisplay s) = false)
    (h3 : strFile.isPrefixOf (stripDisplay s) = false) (h4 : strRR.isPrefixOf (stripDisplay s) = false) :
    vpmapInit e (some s) nb = flatC e nb := by
  unfold vpmapInit
  simp [h1, h2, h3, h4]

example (e : Env) (nb : Int) : vpmapInit e (some "numa".toList) nb = flatC e nb :=
  init_unknown_is_flat e _ nb (by decide) (by decide) (by decide) (by decide)

/-- a `file:` specification whose file cannot be opened is rejected the same way -/
theorem init_missing_file_is_flat (e : Env) (s : Str) (nb : Int)
    (h1 : strFlat.isPrefixOf (stripDisplay s) = false) (h2 : strHwloc.isPrefixOf (stripDisplay s) = false)
    (h3 : strFile.isPrefixOf (stripDisplay s) = true) (hf : e.file ((stripDisplay s).drop 5) = none) :
    vpmapInit e (some s) nb = flatC e nb := by
  unfold vpmapInit
  simp [h1, h2, h3, hf]

/-- an `rr:` specification that `sscanf("rr:%d:%d:%d")` does not fully match is rejected the same way -/
theorem init_bad_rr_is_flat (e : Env) (s : Str) (nb : Int)
    (h1 : strFlat.isPrefixOf (stripDisplay s) = false) (h2 : strHwloc.isPrefixOf (stripDisplay s) = false)
    (h3 : strFile.isPrefixOf (stripDisplay s) = false) (h4 : strRR.isPrefixOf (stripDisplay s) = true)
    (hs : scanRR (stripDisplay s) = none) :
    vpmapInit e (some s) nb = flatC e nb := by
  unfold vpmapInit
  simp [h1, h2, h3, h4, hs]

example (e : Env) (nb : Int) : vpmapInit e (some "rr:1:x".toList) nb = flatC e nb :=
  init_bad_rr_is_flat e _ nb (by decide) (by decide) (by decide) (by decide) (by decide)

theorem singlify_within (R : Nat) (c : CpuSet) (h : c.Within R) (hne : c.bits ≠ []) :
    c.singlify.Within R ∧ c.singlify.bits ≠ [] ∧ ∀ n, Mem n c.singlify → Mem n c := by
  obtain ⟨bits, inf⟩ := c
  cases bits with
  | nil => exact absurd rfl hne
  | cons b t =>
    simp only [CpuSet.singlify]
    refine ⟨⟨rfl, ?_⟩, by simp, ?_⟩
    · intro x hx; simp at hx; rw [hx]; exact h.2 b (by simp)
    · intro n hn
      rcases hn with hn | ⟨k, hk, _⟩
      · left; simp at hn; rw [hn]; simp
      · simp at hk

/-- **The default / `flat` map as parsec_vpmap_init leaves it** (late pass included: NULL sets allocated,
    positive singlify applied): for `1 ≤ nb_cores ≤ R`, one VP with `nb_cores` threads, each with a non-empty
    candidate set inside `[0,R)`, pairwise disjoint. -/
theorem init_flat_spec (e : Env) (nb : Int) (h1 : 1 ≤ nb) (h2 : nb ≤ e.R) :
    ∃ vp, flatC e nb = .ok [vp] nb ∧ vp.length = nb.toNat ∧ (∀ t ∈ vp, ThrBound e.R t) ∧ PairDisjoint vp := by
  obtain ⟨vp, hf, hl, hb, hd⟩ := flat_spec e.R e.sing nb h1 h2
  refine ⟨vp.map (consThr e.sing), ?_, by simp [hl], ?_, ?_⟩
  · unfold flatC; rw [hf]; rfl
  · intro t ht
    obtain ⟨t0, ht0, rfl⟩ := List.mem_map.1 ht
    obtain ⟨c, hc, hne, hw⟩ := hb t0 ht0
    unfold consThr
    simp only [hc, Option.getD_some]
    split
    · have := singlify_within e.R c hw hne
      exact ⟨_, rfl, this.2.1, this.1⟩
    · exact ⟨c, rfl, hne, hw⟩
  · unfold PairDisjoint
    rw [List.pairwise_map]
    refine List.Pairwise.imp_of_mem ?_ hd
    intro a b ha hb' hab ca cb hca hcb
    obtain ⟨c1, hc1, hne1, hw1⟩ := hb a ha
    obtain ⟨c2, hc2, hne2, hw2⟩ := hb b hb'
    have hdis := hab c1 c2 hc1 hc2
    unfold consThr at hca hcb
    simp only [hc1, hc2, Option.getD_some, Option.some.injEq] at hca hcb
    subst hca; subst hcb
    intro n ⟨hn1, hn2⟩
    apply hdis n
    constructor
    · split at hn1
      · exact (singlify_within e.R c1 hw1 hne1).2.2 n hn1
      · exact hn1
    · split at hn2
      · exact (singlify_within e.R c2 hw2 hne2).2.2 n hn2
      · exact hn2

example : ∃ vp, flatC ⟨16, 1, [16], fun _ => none⟩ 3 = .ok [vp] 3 ∧ vp.length = 3 ∧
    (∀ t ∈ vp, ThrBound 16 t) ∧ PairDisjoint vp := init_flat_spec ⟨16, 1, [16], fun _ => none⟩ 3 (by decide) (by decide)

/-! ## the two specification kinds that never work -/

theorem rrInit_pos (e : Env) (n p nb : Int) (hn : 1 ≤ n) : rrInit e n p nb = .ub := by
  unfold rrInit
  by_cases h : (n * p > INT_MAX ∨ n * p < INT_MIN)
  · rw [if_pos h]
  · rw [if_neg h, if_neg (by omega), if_pos hn]

theorem rrInit_ne (e : Env) (n p nb : Int) (hn : n ≠ -1) :
    rrInit e n p nb = .ub ∨ rrInit e n p nb = .ok [] (n * p) ∨ rrInit e n p nb = .negvp n (n * p) := by
  unfold rrInit
  by_cases h : (n * p > INT_MAX ∨ n * p < INT_MIN)
  · rw [if_pos h]; left; rfl
  · rw [if_neg h, if_neg hn]
    by_cases h1 : n ≥ 1
    · rw [if_pos h1]; left; rfl
    · rw [if_neg h1]
      by_cases h0 : n = 0
      · rw [if_pos h0]; right; left; rfl
      · rw [if_neg h0]; right; right; rfl

theorem rr_not_others (s : Str) (h : strRR.isPrefixOf s = true) :
    strFlat.isPrefixOf s = false ∧ strHwloc.isPrefixOf s = false ∧ strFile.isPrefixOf s = false := by
  match s with
  | [] => simp [strRR] at h
  | c :: t =>
    have hc : c = 'r' := by
      simp [strRR, List.isPrefixOf] at h; exact h.1.symm
    subst hc
    refine ⟨?_, ?_, ?_⟩ <;> simp [strFlat, strHwloc, strFile, List.isPrefixOf]

/-- **Finding.**  `rr:n:p:c` — documented in the MCA help — never builds a map: whenever the string scans as
    `rr:n:p:c` with `n ≥ 1` the execution dereferences the NULL map (`parsec_vpmap_init_from_parameters` is a
    TODO); `n = 0` leaves zero VPs, `n < -1` a negative VP count. -/
theorem rr_never_builds_a_map (e : Env) (s : Str) (nb n p c : Int)
    (h : strRR.isPrefixOf (stripDisplay s) = true) (hs : scanRR (stripDisplay s) = some (n, p, c)) :
    (1 ≤ n → vpmapInit e (some s) nb = .ub) ∧
    (n ≠ -1 → vpmapInit e (some s) nb = .ub ∨ vpmapInit e (some s) nb = .ok [] (n * p)
                ∨ vpmapInit e (some s) nb = .negvp n (n * p)) := by
  obtain ⟨h1, h2, h3⟩ := rr_not_others _ h
  have hv : vpmapInit e (some s) nb = rrInit e n p nb := by
    unfold vpmapInit
    simp [h1, h2, h3, h, hs]
  rw [hv]
  exact ⟨rrInit_pos e n p nb, rrInit_ne e n p nb⟩

example (e : Env) : vpmapInit e (some "rr:2:2:4".toList) 4 = .ub :=
  (rr_never_builds_a_map e _ 4 2 2 4 (by decide) (by decide)).1 (by decide)

theorem file_not_others (s : Str) (h : strFile.isPrefixOf s = true) :
    strFlat.isPrefixOf s = false ∧ strHwloc.isPrefixOf s = false := by
  match s with
  | [] => simp [strFile] at h
  | [_] => simp [strFile, List.isPrefixOf] at h
  | c :: d :: t =>
    have hc : c = 'f' ∧ d = 'i' := by
      simp [strFile, List.isPrefixOf] at h; exact ⟨h.1.symm, h.2.1.symm⟩
    obtain ⟨rfl, rfl⟩ := hc
    refine ⟨?_, ?_⟩ <;> simp [strFlat, strHwloc, List.isPrefixOf]

/-- **Finding.**  No readable vpmap file builds a map, whatever its content: the outcome is undefined
    behaviour (one accepted line: heap overflow; more: uninitialised VPs) or ZERO virtual processes (no
    accepted line; the announced fallback to a flat map is refused). -/
theorem file_never_builds_a_map (e : Env) (s : Str) (nb : Int) (content : Str)
    (h : strFile.isPrefixOf (stripDisplay s) = true) (hf : e.file ((stripDisplay s).drop 5) = some content) :
    vpmapInit e (some s) nb = .ub ∨ vpmapInit e (some s) nb = .ok [] 0 := by
  obtain ⟨h1, h2⟩ := file_not_others _ h
  have hv : vpmapInit e (some s) nb = consolidate e.sing (fromFileContent content) := by
    unfold vpmapInit
    simp [h1, h2, h, hf]
  rw [hv]
  unfold fromFileContent
  split
  · right; rfl
  · left; rfl

example : vpmapInit ⟨16, 0, [16], fun p => if p = "m".toList then some "0:4:0,1,2,3\n".toList else none⟩
    (some "file:m".toList) 4 = .ub := by decide

example : vpmapInit ⟨16, 0, [16], fun p => if p = "m".toList then some "1:4:0,1,2,3\n".toList else none⟩
    (some "file:m".toList) 4 = .ok [] 0 := by decide

/-! ## parse_binding_parameter -/

/-- the map describes exactly the requested number of threads, for every binding string -/
theorem bind_thread_count (R nbth : Nat) (s : Str) (ts : List Thr) (h : parseBinding R nbth s = .ok ts) :
    ts.length = nbth := by
  unfold parseBinding at h
  split at h
  · unfold maskMode at h
    split at h
    · cases h
    · simp only [BindOut.ok.injEq] at h; subst h; exact maskThreads_length _ _ _ _
  · split at h
    · exact rangeMode_length R nbth s ts h
    · exact (listMode_spec R nbth s ts h).1

/-- **Range mode is safe**: for EVERY string with a ';' and no 'x', every thread that is given a set is
    given cores inside `[0,R)`. -/
theorem bind_range_in_range (R nbth : Nat) (hR : 1 ≤ R) (s : Str) (ts : List Thr)
    (hx : afterChar 'x' s = none) (hsc : (strchr ';' s).isSome) (h : parseBinding R nbth s = .ok ts) :
    ∀ th ∈ ts, ∀ c, th.cpuset = some c → c.Within R := by
  unfold parseBinding at h
  rw [hx] at h
  simp only at h
  split at h
  · exact rangeMode_within R nbth hR s ts h
  · rename_i hn; rw [hn] at hsc; cases hsc

example : parseBinding 16 6 "2;5;2".toList = .ok [⟨1, some (single 2), -1⟩, ⟨1, some (single 4), -1⟩,
    ⟨1, some (single 3), -1⟩, ⟨1, some (single 5), -1⟩, ⟨1, some CpuSet.empty, -1⟩, ⟨1, none, 0⟩] := by decide

/-- **List mode binds inside `[0,R)` or not at all**: for EVERY string without 'x' and ';', each thread is
    given exactly one index, a valid core or `4294967295` (what `HWLOC_SET(cpuset, -1)` sets). -/
theorem bind_list_in_range (R nbth : Nat) (s : Str) (ts : List Thr)
    (hx : afterChar 'x' s = none) (hsc : strchr ';' s = none) (h : parseBinding R nbth s = .ok ts) :
    ∀ th ∈ ts, ∃ c : Nat, th.cpuset = some (CpuSet.single c) ∧ (c < R ∨ c = UNBOUND_BIT) := by
  unfold parseBinding at h
  rw [hx] at h
  simp only [hsc] at h
  exact (listMode_spec R nbth s ts h).2

/-- **Mask mode, the part that holds**: every thread is given one core which is `≤ R` (not `< R`) or the
    lowest bit of the mask. -/
theorem bind_mask_partial (R nbth : Nat) (s ax : Str) (ts : List Thr)
    (hx : afterChar 'x' s = some ax) (h : parseBinding R nbth s = .ok ts) :
    ∀ th ∈ ts, ∃ c : Int, th.cpuset = some (CpuSet.single c.toNat) ∧ (c ≤ R ∨ c = nextBit (strtoul16 ax) (-1)) := by
  unfold parseBinding at h
  rw [hx] at h
  simp only at h
  unfold maskMode at h
  split at h
  · cases h
  · simp only [BindOut.ok.injEq] at h; subst h; exact maskThreads_spec _ _ _ _

/-- the full statement for the mask mode -/
def BindMaskInRange : Prop :=
  ∀ (R nbth : Nat) (s : Str) (ts : List Thr), 1 ≤ R → (afterChar 'x' s).isSome → parseBinding R nbth s = .ok ts →
    ∀ th ∈ ts, ∀ c, th.cpuset = some c → c.Within R

/-- **Finding.**  The mask mode binds outside the cores: `0x10000` on 16 cores binds every thread to core 16
    (`core > nb_real_cores` instead of `>=`; the lowest bit is never checked at all). -/
theorem bind_mask_escapes : ¬ BindMaskInRange := by
  intro h
  have h16 : parseBinding 16 4 "0x10000".toList = .ok (List.replicate 4 ⟨1, some (single 16), -1⟩) := by decide
  have := h 16 4 "0x10000".toList _ (by decide) (by decide) h16 ⟨1, some (single 16), -1⟩ (by simp) (single 16) rfl
  exact absurd (this.2 16 (by simp [CpuSet.single])) (by decide)

/-- **Finding.**  `a-b` after the number that filled the last slot stores past the end of `core_tab`
    (a VLA on the stack): `0-3` for one thread. -/
theorem bind_list_overflow : parseBinding 16 1 "0-3".toList = .ub := by decide

/-- **Finding.**  A list shorter than the thread count: each remaining thread gets bit 4294967295
    (`HWLOC_SET(cpuset, -1)`; hwloc grows the bitmap to 2^32 bits = 512 MiB). -/
theorem bind_list_short_unbound :
    parseBinding 16 3 "0,1".toList = .ok [⟨1, some (single 0), -1⟩, ⟨1, some (single 1), -1⟩, ⟨1, some (single 4294967295), -1⟩] := by
  decide

/-- **Finding.**  Every `start;` string (nothing after the first ';') makes the parser read one byte past
    the terminating NUL. -/
theorem bind_range_overread (R nbth : Nat) (s : Str) (hx : afterChar 'x' s = none) (h : afterChar ';' s = some []) :
    parseBinding R nbth s = .ub := by
  have hsc : (strchr ';' s).isSome := by
    unfold afterChar at h
    cases hh : strchr ';' s with
    | none => rw [hh] at h; cases h
    | some _ => rfl
  unfold parseBinding
  rw [hx]
  simp only
  split
  · unfold rangeMode; rw [h]
  · rename_i hn; rw [hn] at hsc; cases hsc

example : parseBinding 16 3 "2;".toList = .ub := bind_range_overread 16 3 _ (by decide) (by decide)

/-! ## bind_map (parsec.c) -/

/-- **Every placement of a bind_map is -1 or an allowed core**, for every option string, every allowed mask
    and every thread count (whenever the execution is defined). -/
theorem bindmap_in_allowed (R : Nat) (allowed : List Nat) (n : Nat) (comm : Int) (opt : Str)
    (comm' : Int) (binds : List Int) (used : List Nat)
    (h : parseBindMap R allowed n comm opt = .ok comm' binds used) :
    ∀ b ∈ binds, b = -1 ∨ (0 ≤ b ∧ b.toNat ∈ allowed) := by
  unfold parseBindMap at h
  split at h
  · cases h
  · rename_i st hs
    have hi : BMInv allowed n ⟨List.replicate n (-1), 0, []⟩ :=
      ⟨by simp, fun b hb => Or.inl (List.mem_replicate.1 hb).2⟩
    have := bmLoop_inv R _ _ _ st hi hs
    simp only [BMOut.ok.injEq] at h
    obtain ⟨_, rfl, _⟩ := h
    exact this.2

/-- one placement per compute thread -/
theorem bindmap_length (R : Nat) (allowed : List Nat) (n : Nat) (comm : Int) (opt : Str)
    (comm' : Int) (binds : List Int) (used : List Nat)
    (h : parseBindMap R allowed n comm opt = .ok comm' binds used) : binds.length = n := by
  unfold parseBindMap at h
  split at h
  · cases h
  · rename_i st hs
    have hi : BMInv allowed n ⟨List.replicate n (-1), 0, []⟩ :=
      ⟨by simp, fun b hb => Or.inl (List.mem_replicate.1 hb).2⟩
    have := bmLoop_inv R _ _ _ st hi hs
    simp only [BMOut.ok.injEq] at h
    obtain ⟨_, rfl, _⟩ := h
    exact this.1

example : parseBindMap 16 [4,5,6,7,8,9,10,11] 4 (-1) "1:7:2".toList = .ok (-1) [5, 7, 9, 11] [5, 7, 9, 11] := by decide

/-- **Finding.**  `thr_idx` is never compared with the number of compute threads: a map that names more
    cores than threads writes past the end of `startup[]` (`0:3` with 2 threads); and `3:` reads past the NUL. -/
theorem bindmap_overflow :
    parseBindMap 16 (List.range 16) 2 (-1) "0:3".toList = .ub ∧
    parseBindMap 16 (List.range 16) 8 (-1) "3:".toList = .ub := by
  constructor <;> decide


/-- **bind_map honours every well-formed core list, and overflows on every too long one.**  For the text
    `c1,c2,...,ck` (decimal, every `ci < R`): if `k ≤ n` thread `i` is placed on the `ci`-th allowed core
    (-1 when the allowed mask has fewer cores) and the remaining threads stay unbound; if `k > n` the execution
    writes past the end of `startup[]`. -/
theorem bindmap_core_list (R : Nat) (hR : R ≤ 2147483648) (allowed : List Nat) (n : Nat) (comm : Int) (cs : List Nat)
    (hne : cs ≠ []) (hlt : ∀ c ∈ cs, c < R) :
    (cs.length ≤ n → ∃ used, parseBindMap R allowed n comm (renderList cs)
        = .ok comm (cs.map (fun (c : Nat) => findCore allowed (c : Int)) ++ List.replicate (n - cs.length) (-1)) used)
    ∧ (n < cs.length → parseBindMap R allowed n comm (renderList cs) = .ub) := by
  have hloop := bmLoop_renderList R hR allowed cs hne hlt ((renderList cs).length + 1)
    (by have := renderList_length_ge cs; omega)
  constructor
  · intro hk
    obtain ⟨u', hu⟩ := placeAll_fits allowed cs [] n [] hk
    refine ⟨u', ?_⟩
    unfold parseBindMap
    rw [renderList_plus]
    simp only [Bool.false_eq_true, if_false]
    have := hloop ⟨List.replicate n (-1), 0, []⟩
    simp only [List.nil_append, List.length_nil, Nat.zero_add] at hu
    rw [this, hu]
  · intro hk
    have hov := placeAll_overflows allowed cs [] n [] hk
    unfold parseBindMap
    rw [renderList_plus]
    simp only [Bool.false_eq_true, if_false]
    have := hloop ⟨List.replicate n (-1), 0, []⟩
    simp only [List.nil_append, List.length_nil] at hov
    rw [this, hov]

example : renderList [3, 12, 7] = "3,12,7".toList := by simp [renderList, render, digitChar]
example : ∃ used, parseBindMap 16 (List.range 16) 5 (-1) "3,12,7".toList = .ok (-1) [3, 12, 7, -1, -1] used :=
  ⟨[3, 7, 12], by decide⟩

/-! ## default placement (bind_map unset) -/

/-- **Every default placement is -1 or an allowed core**, one per thread, whatever the map. -/
theorem default_in_allowed (allowed : List Nat) (vps : List Vp) (binds : List Int) (used : List Nat)
    (h : applyVpmap allowed vps = .ok binds used) :
    binds.length = vps.flatten.length ∧ ∀ b ∈ binds, b = -1 ∨ (0 ≤ b ∧ b.toNat ∈ allowed) := by
  unfold applyVpmap at h
  have := applyGo_ok allowed _ [] [] binds used (by intro b hb; cases hb) h
  simpa [PlaceOk] using this

example : ∃ vps t, vpmapInit ⟨16, 0, [16], fun _ => none⟩ none 6 = .ok vps t ∧
    applyVpmap (List.range 16) vps = .ok [0, 2, 4, 6, 8, 10] [0, 2, 4, 6, 8, 10] := ⟨_, _, rfl, by decide⟩

/-- **Finding.**  The default placement of an oversubscribed flat map does not terminate in reasonable time:
    once the 16 cores are used the scan of the 17th thread walks the infinite candidate set. -/
theorem default_flat_hang :
    ∃ vps t, vpmapInit ⟨16, 0, [16], fun _ => none⟩ none 17 = .ok vps t ∧ applyVpmap (List.range 16) vps = .hang :=
  ⟨_, _, rfl, by decide⟩

end ParsecVerif.C40
