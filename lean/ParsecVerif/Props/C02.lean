import ParsecVerif.Props.Runtime
import ParsecVerif.Proofs.PtgRt2
/-!
# C02 — PTG execution respects dependencies and delivers the named data

For EVERY program of the JDF AST that satisfies `WellFormed` (Model/Ptg.lean), every number of workers, every AGAIN
pattern and every interleaving of the abstract runtime (`Model/Dataflow.lean`) on the task graph `graphOf p`:

* `C02_order` — a task starts only after every predecessor named by one of its active input dependencies has ended;
* `C02_final` — with deterministic bodies `out = H(class, flow, locals, inputs)` and a program whose conflicting
  bodies are ordered by dependencies (`RaceFree`: the copies are shared by reference, exactly as the generated code
  does), every complete run ends in the heap of the reference sequential interpreter `seqRun` — collection tiles,
  arena copies and the ghost cells recording what each body saw (`obs`) and left (`out`);
* `C02_inputs` — in particular every body of every run sees in every flow what it sees in the sequential execution;
* `C02_inputs_named` — and when, in the sequential execution, every input fed by a task holds what that task left in the
  named flow (`namedOKB`, decidable: false only when a third task legitimately updates the passed copy in between), then
  in EVERY run the value seen is the content the NAMED producer left in that flow;
* `C02_racefree_of_check` — the executable check evaluated by the driver on every generated program is sound.
-/
namespace ParsecVerif.C02
open ParsecVerif.Ptg ParsecVerif.PtgRt ParsecVerif.Dataflow ParsecVerif.Runtime

variable {F : Nat → List (Option Nat) → Nat}

/-- **Dependencies respected.**  If instance `t` names `u` in an active input dependency, then in every trace of every
    run, every start of `t` comes after the completion of `u`. -/
theorem C02_order (p : Program) (cfg : Cfg) (hwf : WellFormed p = true) (again : List Nat) (ts : List Tr)
    (t : Instance) (ht : t ∈ allInstances p) (u : Instance) (sf : Nat) (hu : (u, sf) ∈ preds p t) :
    ∃ i j, nodeOf p u = some i ∧ nodeOf p t = some j ∧
      ∀ L1 L2, (run (graphOf p cfg) F again ts).log = L1 ++ Ev.start j :: L2 → Ev.end_ i ∈ L1 := by
  obtain ⟨i, j, hi, hj, he⟩ := preds_edge p cfg hwf t ht u sf hu
  exact ⟨i, j, hi, hj, fun L1 L2 hl => deps_respected (graphOf_WF p cfg hwf) again ts L1 L2 j hl (i, j) he rfl⟩

theorem count_range (n i : Nat) : (List.range n).count i = if i < n then 1 else 0 := by
  rw [List.Nodup.count List.nodup_range]
  simp [List.mem_range]

/-- the completions of a complete run are a permutation of the nodes -/
theorem endOrder_perm {g : Graph} {rank : Nat → Nat} (hwf : WF g rank) (again : List Nat) (ts : List Tr)
    (hq : quiescent (run g F again ts)) : (endOrder (run g F again ts).log).Perm (List.range g.n) := by
  rw [List.perm_iff_count]
  intro i
  rw [count_endOrder, count_range]
  by_cases hi : i < g.n
  · rw [if_pos hi]; exact quiescent_all_once hwf again ts hq i hi
  · rw [if_neg hi]; exact only_graph_nodes_run hwf again ts i (by omega)

/-- **Result = sequential execution.**  Every complete run of a well-formed, race-free program ends in the heap of the
    reference sequential interpreter, whatever the schedule, the number of workers and the AGAIN answers. -/
theorem C02_final (p : Program) (cfg : Cfg) (H : BodyFn) (hwf : WellFormed p = true)
    (hrf : RaceFree (graphOf p cfg) (nodeDs p cfg H)) (again : List Nat) (ts : List Tr)
    (hq : quiescent (run (graphOf p cfg) F again ts)) :
    heapOfLog p cfg H (run (graphOf p cfg) F again ts).log = seqRun p cfg H := by
  have hg := graphOf_WF p cfg hwf
  have hperm := endOrder_perm hg again ts hq
  have hnd : (endOrder (run (graphOf p cfg) F again ts).log).Nodup := hperm.nodup_iff.2 List.nodup_range
  have htopo := topo_run (F := F) hg again ts
  have hpw := pairwise_of_topo [] _ (by simpa using hnd) (by simpa using htopo)
  unfold heapOfLog seqRun
  exact runOrder_topo_eq (graphOf p cfg) (nodeDs p cfg H) (nodeDs_targetsOK p cfg H) hrf _ _ hperm hnd hpw
    (pairwise_range hg _) initHeap

/-- every body of every complete run sees, in every flow, the value it sees in the sequential execution -/
theorem C02_inputs (p : Program) (cfg : Cfg) (H : BodyFn) (hwf : WellFormed p = true)
    (hrf : RaceFree (graphOf p cfg) (nodeDs p cfg H)) (again : List Nat) (ts : List Tr)
    (hq : quiescent (run (graphOf p cfg) F again ts)) (j f : Nat) :
    heapOfLog p cfg H (run (graphOf p cfg) F again ts).log (.obs j f) = seqRun p cfg H (.obs j f) := by
  rw [C02_final p cfg H hwf hrf again ts hq]

theorem seqRun_eq_list (p : Program) (cfg : Cfg) (H : BodyFn) :
    (runOrderL (nodeDs p cfg H) (List.range (allInstances p).length) []).get = seqRun p cfg H := by
  rw [get_runOrderL, get_nil]; rfl

/-- **The named data.**  If in the sequential execution every input fed by a task holds what that task left in the named
    flow (`namedOKB`, decidable, evaluated on every generated program), then in EVERY complete run the value a body sees in
    such a flow is the content its named producer left in that flow. -/
theorem C02_inputs_named (p : Program) (cfg : Cfg) (H : BodyFn) (hwf : WellFormed p = true)
    (hrf : RaceFree (graphOf p cfg) (nodeDs p cfg H)) (hn : namedOKB p cfg H = true) (again : List Nat) (ts : List Tr)
    (hq : quiescent (run (graphOf p cfg) F again ts)) (j f i sf : Nat) (hs : (j, f, i, sf) ∈ flowSources p cfg) :
    heapOfLog p cfg H (run (graphOf p cfg) F again ts).log (.obs j f) =
      heapOfLog p cfg H (run (graphOf p cfg) F again ts).log (.out i sf) := by
  rw [C02_final p cfg H hwf hrf again ts hq]
  unfold namedOKB at hn
  simp only [List.all_eq_true, beq_iff_eq] at hn
  have := hn (j, f, i, sf) hs
  rw [seqRun_eq_list] at this
  exact this

/-- the executable check the driver evaluates on every generated program implies the hypothesis of `C02_final` -/
theorem C02_racefree_of_check (p : Program) (cfg : Cfg) (H : BodyFn) (hwf : WellFormed p = true)
    (h : raceFreeB (graphOf p cfg) (nodeDs p cfg H) = true) : RaceFree (graphOf p cfg) (nodeDs p cfg H) :=
  raceFreeB_sound (graphOf_WF p cfg hwf) _ h

/-- two different complete runs (schedules, worker counts, AGAIN answers) deliver the same heap -/
theorem C02_schedule_independent (p : Program) (cfg : Cfg) (H : BodyFn) (hwf : WellFormed p = true)
    (hrf : RaceFree (graphOf p cfg) (nodeDs p cfg H)) (ag1 ag2 : List Nat) (ts1 ts2 : List Tr)
    (hq1 : quiescent (run (graphOf p cfg) F ag1 ts1)) (hq2 : quiescent (run (graphOf p cfg) F ag2 ts2)) :
    heapOfLog p cfg H (run (graphOf p cfg) F ag1 ts1).log = heapOfLog p cfg H (run (graphOf p cfg) F ag2 ts2).log := by
  rw [C02_final p cfg H hwf hrf ag1 ts1 hq1, C02_final p cfg H hwf hrf ag2 ts2 hq2]

/-! ### The write-back to the collection is asynchronous: the unrestricted statement is false of the code

`P(0)`: `WRITE A <- NEW -> ddesc(8)`, `CTL C -> C Q(0)`;  `Q(0)`: `READ B <- ddesc(8)`, `CTL C <- C P(0)`.
`Q(0)` is ordered after `P(0)` by a control dependency, the program is race free in the synchronous model, yet the real
write-back is a command queued for the communication thread: when it is executed after `Q(0)`'s body (`deferredRun`),
`Q(0)` reads the initial content 1008 of the tile, not what a sequential execution gives.  Replayed on the real runtime by
checks/C02.py (corpus/C02/005-read-after-writeback.case; known finding).  `asyncSafeB` is the decidable condition that
excludes such programs from `C02_final`'s model. -/

def asyncEx : Program :=
  { globals := [],
    classes := [{ name := "P", locals := [.range ⟨.const 0, .const 0, .const 1⟩], isParam := [true], place := .var 0, prio := none,
                  flows := [{ access := .write, ins := [⟨none, .new, none⟩], outs := [⟨none, .coll (.const 8), none⟩] },
                            { access := .ctl, ins := [], outs := [⟨none, .task 1 1 [.one (.var 0)], none⟩] }] },
                { name := "Q", locals := [.range ⟨.const 0, .const 0, .const 1⟩], isParam := [true], place := .var 0, prio := none,
                  flows := [{ access := .read, ins := [⟨none, .coll (.const 8), none⟩], outs := [] },
                            { access := .ctl, ins := [⟨none, .task 0 1 [.one (.var 0)], none⟩], outs := [] }] }] }

def exH : BodyFn := fun cls f env ins => cls + 10 * f + 100 * env.length + ins.sum

/-- The statement "every behaviour with deferred write-backs ends like the sequential execution", for all well-formed
    race-free programs: FALSE of the code as it is. -/
def C02_final_async_full : Prop :=
  ∀ (p : Program) (cfg : Cfg) (H : BodyFn), WellFormed p = true → raceFreeB (graphOf p cfg) (nodeDs p cfg H) = true →
    deferredRun p cfg H (List.range (allInstances p).length) = seqRun p cfg H

set_option maxRecDepth 8000 in
theorem async_writeback_witness :
    WellFormed asyncEx = true ∧ raceFreeB (graphOf asyncEx {}) (nodeDs asyncEx {} exH) = true ∧
    asyncSafeB (graphOf asyncEx {}) (nodeFlows asyncEx {}) = false ∧
    deferredRun asyncEx {} exH [0, 1] (.obs 1 0) = 1008 ∧ seqRun asyncEx {} exH (.obs 1 0) = 100 ∧
    deferredRun asyncEx {} exH [0, 1] (.tile 8) = seqRun asyncEx {} exH (.tile 8) := by decide

theorem C02_final_async_full_false : ¬ C02_final_async_full := by
  intro h
  have h1 := h asyncEx {} exH async_writeback_witness.1 async_writeback_witness.2.1
  have h2 : deferredRun asyncEx {} exH (List.range (allInstances asyncEx).length) (.obs 1 0) = seqRun asyncEx {} exH (.obs 1 0) := by
    rw [h1]
  have h3 : List.range (allInstances asyncEx).length = [0, 1] := by decide
  rw [h3, async_writeback_witness.2.2.2.1, async_writeback_witness.2.2.2.2.1] at h2
  exact absurd h2 (by decide)

/-! ### Non-vacuity -/

/-- `P(i)`, i = 0, 2: RW on tile i, passes its copy to `T(i)` (RW, in place), which names tile i as its final output -/
def ex : Program :=
  { globals := [],
    classes := [{ name := "P", locals := [.range ⟨.const 0, .const 2, .const 2⟩], isParam := [true], place := .var 0, prio := none,
                  flows := [{ access := .rw, ins := [⟨none, .coll (.var 0), none⟩],
                              outs := [⟨none, .task 1 0 [.one (.var 0)], none⟩] }] },
                { name := "T", locals := [.range ⟨.const 0, .const 2, .const 2⟩], isParam := [true], place := .var 0, prio := none,
                  flows := [{ access := .rw, ins := [⟨none, .task 0 0 [.one (.var 0)], none⟩],
                              outs := [⟨none, .coll (.var 0), none⟩] },
                            { access := .write, ins := [⟨none, .new, none⟩], outs := [⟨none, .coll (.bin .add (.var 0) (.const 1)), none⟩] }] }] }

example : WellFormed ex = true := by decide
set_option maxRecDepth 8000 in
example : raceFreeB (graphOf ex {}) (nodeDs ex {} exH) = true := by decide
example : RaceFree (graphOf ex {}) (nodeDs ex {} exH) :=
  C02_racefree_of_check ex {} exH (by decide) (by set_option maxRecDepth 8000 in decide)
-- the program is not trivially race free: `P(0)` and `T(0)` conflict (same copy, both write) and are ordered by the edge
def confl (ds : List NodeD) (i j : Nat) : Option Bool := (ds[i]?).bind fun a => (ds[j]?).map fun b => a.conflict b
set_option maxRecDepth 8000 in
example : confl (nodeDs ex {} exH) 0 2 = some true ∧ confl (nodeDs ex {} exH) 0 1 = some false := by decide
def exSched : List Tr := [.start 1, .finish 1, .release 1 3, .start 3, .again 3, .start 0, .start 3, .finish 0,
  .release 0 2, .start 2, .finish 3, .finish 2]
set_option maxRecDepth 8000 in
example : (run (graphOf ex {}) (fun _ _ => 0) [0, 0, 0, 1] exSched).pending = [] ∧
    (run (graphOf ex {}) (fun _ _ => 0) [0, 0, 0, 1] exSched).status = List.replicate 4 .ended ∧
    endOrder (run (graphOf ex {}) (fun _ _ => 0) [0, 0, 0, 1] exSched).log = [1, 0, 3, 2] := by decide
-- what the sequential interpreter computes: tile 0 is updated in place by `P(0)` then `T(0)`; tile 1 receives the copy of
-- `T(0)`'s fresh flow; `T(0)` saw what `P(0)` left
set_option maxRecDepth 8000 in
example : seqRun ex {} exH (.tile 0) = 1201 ∧ seqRun ex {} exH (.tile 1) = 1211 ∧ seqRun ex {} exH (.tile 5) = 1005 ∧
    seqRun ex {} exH (.obs 2 0) = seqRun ex {} exH (.out 0 0) := by decide
set_option maxRecDepth 8000 in
example : flowSources ex {} = [(2, 0, 0, 0), (3, 0, 1, 0)] ∧ namedOKB ex {} exH = true := by decide

end ParsecVerif.C02
