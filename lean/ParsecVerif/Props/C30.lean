/-
  C30 — the lock-free LIFO (parsec/class/lifo.h, 128-bit CAS branch) is a linearizable stack.

  Model: `Model/Lifo.lean` (one transition per shared-memory access; any number of threads, any
  programs of push / chain / pop / try_pop / owner writes of `list_next`, any schedule).
  Hypotheses, explicit in the model:
  * a thread pushes/chains/writes only items it owns (enforced as the call precondition `PushPre`,
    decided thread-locally; other calls are not issued and recorded as `rejected`);
  * items are never freed: `next` is a total heap, a popper may read `item->list_next` of an item
    that another thread popped meanwhile (it reads garbage, and its CAS then fails);
  * sequentially consistent memory; the 64-bit counter does not wrap (a `Nat`).
-/
import ParsecVerif.Proofs.LifoTry

namespace ParsecVerif.C30
open ParsecVerif.Lifo

/-- `S` is a linearization of the execution that led to state `s` of configuration `c`. -/
structure Linearization (c : Config) (s : State) (S : List LinRec) : Prop where
  /-- `S` is a legal history of the sequential stack started on the initial content; it ends in the
      stack that the heap contains (chain from the head following `list_next`). -/
  legal : Spec.replay c.stack (S.map LinRec.ev) = some s.mem.abs
  heap : IsSeg s.mem.next s.mem.top s.mem.abs 0
  /-- thread `t`'s part of `S` = its completed operations with their results, in program order
      (followed by its operation that has taken effect but not yet returned, if any) -/
  perThread : ∀ t th, s.thr[t]? = some th →
    S.filter (fun l => l.tid == t) = th.hist.map (OpRec.lin t) ++ pending t th
  /-- and these are the thread's program: completed ++ running ++ remaining -/
  program : ∀ t th, s.thr[t]? = some th →
    th.hist.map (fun r => r.op) ++ pcOp th.pc ++ th.todo = c.progs.getD t []
  threads : s.thr.length = c.progs.length
  /-- real-time order: an operation that returned (step stamp `tRet`) before another one was invoked
      (`tInv`) comes first in `S` -/
  realTime : ∀ (i : Nat) (thi : Thread) (a : OpRec), s.thr[i]? = some thi → a ∈ thi.hist → ∀ b ∈ S, a.tRet < b.tInv → Before S (a.lin i) b
  /-- every entry of `S` took effect between its invocation and (if it returned) its return -/
  stamps : (∀ l ∈ S, l.tInv ≤ l.tLin) ∧ ∀ (t : Nat) (th : Thread), s.thr[t]? = some th → ∀ r ∈ th.hist, r.tLin ≤ r.tRet

/-- **Linearizability**, for every well-formed configuration (any number of items, threads and any
    programs) and EVERY schedule of micro steps: there is a sequential stack history with the same
    per-thread operations and results that respects the real-time order. -/
theorem C30_linearizable (c : Config) (hc : c.WF) (sched : List Nat) :
    ∃ S, Linearization c (run c sched) S := by
  have h := Inv.run c hc sched
  refine ⟨(run c sched).lins, h.spec, h.g.seg, fun t th ht => (h.th t th ht).lins,
    fun t th ht => (h.th t th ht).prog, h.len, ?_, h.stamp, fun t th ht r hr => ((h.th t th ht).time.hist r hr).2.1⟩
  intro i thi a hi ha b hb hab
  have hti := (h.th i thi hi)
  have ha' : a.lin i ∈ (run c sched).lins := by
    have : a.lin i ∈ linsOf i thi := List.mem_append_left _ (List.mem_map_of_mem ha)
    rw [← hti.lins] at this
    exact (List.mem_filter.1 this).1
  have h1 := hti.time.hist a ha
  have h2 := h.stamp b hb
  exact before_of_sorted h.sorted ha' hb (by show a.tLin < b.tLin; omega)

/-- when every thread has finished, the sequential history consists exactly of the threads' whole
    programs with the results they returned -/
theorem C30_linearizable_complete (c : Config) (hc : c.WF) (sched : List Nat)
    (hfin : ∀ th ∈ (run c sched).thr, th.pc = .idle ∧ th.todo = []) :
    ∃ S, Linearization c (run c sched) S ∧
      ∀ t th, (run c sched).thr[t]? = some th →
        S.filter (fun l => l.tid == t) = th.hist.map (OpRec.lin t) ∧ th.hist.map (fun r => r.op) = c.progs.getD t [] := by
  obtain ⟨S, hS⟩ := C30_linearizable c hc sched
  refine ⟨S, hS, fun t th ht => ?_⟩
  have hf := hfin th (List.mem_of_getElem? ht)
  have h1 := hS.perThread t th ht
  have h2 := hS.program t th ht
  simp only [pending, hf.1, hf.2, pcOp, List.append_nil] at h1 h2
  exact ⟨h1, h2⟩

/-- **Conservation** (no element lost or duplicated), in every reachable state: the items chained from
    the head are pairwise distinct, and every item x ≠ NULL is EITHER in the LIFO (`who x = 0`) OR
    owned by exactly one thread (`who` is a function; ownership is acquired only by popping the item
    and given up only by the successful CAS of a push/chain of it). -/
theorem C30_conservation (c : Config) (hc : c.WF) (sched : List Nat) :
    IsSeg (run c sched).mem.next (run c sched).mem.top (run c sched).mem.abs 0 ∧
    (run c sched).mem.abs.Nodup ∧
    ∀ x, x ≠ 0 → ((run c sched).mem.who x = 0 ↔ x ∈ (run c sched).mem.abs) := by
  have h := (Inv.run c hc sched).g
  refine ⟨h.seg, h.nodup, fun x hx => ?_⟩
  rw [h.who0 x]; simp [hx]

/-- the saved values of a popper that is about to CAS are still accurate whenever the CAS can succeed:
    if the head still carries its saved counter then its saved item is in the stack and the saved
    `next` is that item's current `list_next` (the ABA argument). -/
theorem C30_pop_cas_sound (c : Config) (hc : c.WF) (sched : List Nat) (t : Nat) (th : Thread) (tr : Bool) (k it nx : Nat)
    (ht : (run c sched).thr[t]? = some th) (hpc : th.pc = .popCas tr k it nx)
    (hctr : (run c sched).mem.ctr = k) (htop : (run c sched).mem.top = it) :
    ∃ rest, (run c sched).mem.abs = it :: rest ∧ IsSeg (run c sched).mem.next nx rest 0 := by
  have h := Inv.run c hc sched
  have hT := (h.th t th ht).tinv
  rw [hpc] at hT
  obtain ⟨_, h2, h3⟩ := hT
  obtain ⟨rest, habs, hseg⟩ := h.g.abs_of_top htop h2
  exact ⟨rest, habs, (h3 hctr.symm).2 ▸ hseg⟩

/-- **try_pop gives up only on interference** (and pop retries only then): if the 128-bit CAS of a
    popper is about to fail — the head differs from its saved (counter, item) — then the operation of
    another thread changed the stack (successful push/chain/pop, linearized) after this popper's
    invocation.  Together with `C30_trypop_null_on_empty` this bounds the weak specification of try_pop:
    NULL is returned only on an empty LIFO or under contention. -/
theorem C30_trypop_gives_up_only_on_interference (c : Config) (hc : c.WF) (sched : List Nat) (t : Nat) (th : Thread)
    (tr : Bool) (k it nx : Nat) (ht : (run c sched).thr[t]? = some th) (hpc : th.pc = .popCas tr k it nx)
    (hfail : ¬ ((run c sched).mem.ctr = k ∧ (run c sched).mem.top = it)) :
    ∃ l ∈ (run c sched).lins, l.tid ≠ t ∧ th.tInv < l.tLin ∧ Effective l := by
  have h := (Inv2.run c hc sched).tryi t th ht
  unfold TryInv at h
  rw [hpc] at h
  apply h
  by_cases h1 : k = (run c sched).mem.ctr
  · exact Or.inr (fun h2 => hfail ⟨h1.symm, h2.symm⟩)
  · exact Or.inl h1

/-- a popper that reads a NULL head item does so on an empty stack -/
theorem C30_trypop_null_on_empty (c : Config) (hc : c.WF) (sched : List Nat)
    (htop : (run c sched).mem.top = 0) : (run c sched).mem.abs = [] := by
  have h := (Inv.run c hc sched).g.seg
  rw [htop] at h
  exact h.nil_of_zero

/-! ## a chained ring keeps its internal order -/

theorem pops_prefix (rs : List Nat) (h0 : ∀ x ∈ rs, x ≠ 0) (trs : List Bool) (hl : trs.length = rs.length) :
    ∀ σ σ', Spec.replay σ ((trs.zip rs).map fun p => (Op.pop p.1, Res.item p.2)) = some σ' → σ = rs ++ σ' := by
  induction rs generalizing trs with
  | nil => intro σ σ' h; cases trs <;> simp_all [Spec.replay]
  | cons x xs ih =>
    intro σ σ' h
    cases trs with
    | nil => simp at hl
    | cons b bs =>
      obtain ⟨y, rfl⟩ := Nat.exists_eq_succ_of_ne_zero (h0 x (by simp))
      simp only [List.zip_cons_cons, List.map_cons, Spec.replay, Spec.step] at h
      split at h
      · rename_i hh
        simp only [Option.bind_some] at h
        have := ih (fun z hz => h0 z (List.mem_cons_of_mem _ hz)) bs (by simpa using hl) _ _ h
        cases σ with
        | nil => simp at hh
        | cons a r =>
          simp only [List.head?_cons, Option.some.injEq] at hh
          simp only [List.tail_cons] at this
          simp [hh, this]
      · simp at h

/-- **Chain order.** In the sequential history (which exists by `C30_linearizable`): if a chain of the
    ring `pre ++ [tl]` is directly followed by k ≤ |ring| successful pops / try_pops, these return the
    ring's items in ring order. -/
theorem C30_chain_order (σ σ' : List Nat) (pre : List Nat) (tl : Nat) (rs : List Nat) (trs : List Bool)
    (h0 : ∀ x ∈ rs, x ≠ 0) (hl : trs.length = rs.length) (hk : rs.length ≤ (pre ++ [tl]).length)
    (h : Spec.replay σ ((Op.push pre tl, Res.unit) :: (trs.zip rs).map fun p => (Op.pop p.1, Res.item p.2)) = some σ') :
    rs = (pre ++ [tl]).take rs.length := by
  simp only [Spec.replay, Spec.step, Option.bind_some] at h
  have := pops_prefix rs h0 trs hl _ _ h
  have h2 := congrArg (List.take rs.length) this
  have e1 : (pre ++ [tl] ++ σ).take rs.length = (pre ++ [tl]).take rs.length := List.take_append_of_le_length hk
  have e2 : (rs ++ σ').take rs.length = rs := List.take_left' rfl
  rw [e1, e2] at h2
  exact h2.symm

/-- … and at the linearization point of the chain the heap chain really is ring ++ old content:
    the successful CAS of a push/chain turns the ghost stack σ into `pre ++ [tl] ++ σ`, and the
    invariant `IsSeg next top abs 0` holds again afterwards. -/
theorem C30_chain_commit (m : Mem) (t : Nat) (pre : List Nat) (tl nxt : Nat) (hG : GInv m)
    (hT : TInv m t (.pushCas pre tl nxt)) (htop : m.top = nxt) :
    (pushCommit m pre tl).abs = pre ++ [tl] ++ m.abs ∧
    IsSeg (pushCommit m pre tl).next (pushCommit m pre tl).top (pre ++ [tl] ++ m.abs) 0 :=
  ⟨rfl, (hG.pushCommit hT.1 hT.2.1 (htop ▸ hT.2.2)).seg⟩

/-! ## the scheduler's steps are runs of micro steps -/

theorem runToPark_micro (fuel : Nat) (s : State) (t : Nat) :
    ∃ k, runToPark fuel s t = (List.replicate k t).foldl step s := by
  induction fuel generalizing s with
  | zero => exact ⟨0, rfl⟩
  | succ f ih =>
    unfold runToPark
    split
    · exact ⟨0, rfl⟩
    · obtain ⟨k, hk⟩ := ih (step s t)
      exact ⟨k + 1, by rw [hk]; rfl⟩

/-- one step of the cooperative scheduler (atomic primitive at the park point, then plain code up to
    the next park point) is a run of micro steps of that thread: every execution of the real code
    under the scheduler is an execution of the model, to which the theorems above apply. -/
theorem C30_macro_is_micro (c : Config) (msched : List Nat) :
    ∃ sched, msched.foldl macroStep (init c) = run c sched := by
  suffices ∀ s, ∃ l : List Nat, msched.foldl macroStep s = l.foldl step s from this _
  induction msched with
  | nil => intro s; exact ⟨[], rfl⟩
  | cons t r ih =>
    intro s
    obtain ⟨k, hk⟩ := runToPark_micro 100000 (step s t) t
    obtain ⟨l, hl⟩ := ih (macroStep s t)
    refine ⟨t :: (List.replicate k t ++ l), ?_⟩
    simp only [List.foldl_cons, List.foldl_append]
    rw [← hk]; exact hl

/-! ## well-formedness of the canonical configurations (used by the driver) -/

theorem nextOf_seg : ∀ (l : List Nat), l.Nodup → 0 ∉ l → IsSeg (nextOf l) (l.headD 0) l 0
  | [], _, _ => rfl
  | [a], _, h0 => by
    simp only [IsSeg, List.headD_cons, nextOf]
    exact ⟨trivial, fun h => h0 (by simp [h]), trivial⟩
  | a :: b :: r, hn, h0 => by
    have hn' := List.nodup_cons.1 hn
    have ih := nextOf_seg (b :: r) hn'.2 (fun h => h0 (List.mem_cons_of_mem _ h))
    simp only [List.headD_cons] at ih
    have ha : a ≠ 0 := fun h => h0 (by simp [h])
    refine ⟨rfl, ha, ?_⟩
    have e : nextOf (a :: b :: r) a = b := by simp [nextOf]
    rw [e]
    refine ih.congr fun x hx => ?_
    have : x ≠ a := fun h => hn'.1 (h ▸ hx)
    simp [nextOf, this]

theorem mkConfig_WF (n : Nat) (stack owner : List Nat) (progs : List (List Op)) (hn : stack.Nodup) (h0 : 0 ∉ stack) :
    (mkConfig n stack owner progs).WF := by
  refine ⟨hn, nextOf_seg stack hn h0, fun x => ?_⟩
  simp only [mkConfig]
  by_cases hx : x = 0 ∨ x ∈ stack
  · simp [hx]
  · simp only [hx, ite_false, iff_false]; omega

/-! ## non-vacuity: the hypotheses are satisfiable and the interesting branches are reachable -/

/-- items 1,2 in the LIFO (2 on top), item 3 owned by thread 0.   T0: pop.   T1: pop, pop, push 2. -/
def exCfg : Config := mkConfig 3 [2, 1] [2, 2, 0] [[.pop false], [.pop false, .pop false, .push [] 2]]

example : exCfg.WF := mkConfig_WF _ _ _ _ (by decide) (by decide)

/-- the ABA schedule: T0 reads (counter 0, item 2, next 1) and stops before its CAS; T1 pops 2, pops 1
    and pushes 2 back — the head item is 2 again, but the counter is 2 and 2.next is NULL; T0's CAS
    fails (a pointer-only CAS would succeed and install the popped item 1), T0 retries and pops 2. -/
def exSched : List Nat := List.replicate 5 0 ++ List.replicate 21 1 ++ List.replicate 8 0

example : (threadAt (run exCfg (List.replicate 5 0 ++ List.replicate 21 1)) 0).pc = .popCas false 0 2 1 := by decide
example : (run exCfg (List.replicate 5 0 ++ List.replicate 21 1)).mem.ctr = 2 ∧
          (run exCfg (List.replicate 5 0 ++ List.replicate 21 1)).mem.top = 2 := by decide
example : (threadAt (run exCfg (List.replicate 5 0 ++ List.replicate 21 1 ++ [0])) 0).pc = .popRdC false := by decide
example : ((run exCfg exSched).thr.map fun th => th.hist.map fun r => r.res) =
    [[.item 2], [.item 2, .item 1, .unit]] := by decide
example : (run exCfg exSched).lins.map (fun l => (l.tid, l.res)) =
    [(1, .item 2), (1, .item 1), (1, .unit), (0, .item 2)] := by decide
example : ∀ th ∈ (run exCfg exSched).thr, th.pc = .idle ∧ th.todo = [] := by decide
/-- a chain of a ring of two, rejected calls, an empty pop and a try_pop giving up on a changed counter
    (the head item is 1 again, as when it read it) are all reachable -/
def exCfg2 : Config := mkConfig 3 [1] [0, 0, 0]
  [[.push [2] 3, .setNext 2 3, .push [2] 3, .pop false, .pop false, .pop false, .pop false, .push [] 1, .push [] 1], [.pop true]]
set_option maxRecDepth 8000 in
example : ((run exCfg2 (List.replicate 5 1 ++ List.replicate 60 0 ++ [1])).thr.map fun th => th.hist.map fun r => r.res) =
    [[.rejected, .unit, .unit, .item 2, .item 3, .item 1, .item 0, .unit, .rejected], [.item 0]] := by decide
example : C30_chain_order [1] [1] [2] 3 [2, 3] [false, true] (by decide) rfl (by decide) (by decide) = rfl := rfl

end ParsecVerif.C30
