import ParsecVerif.Proofs.PList
/-!
# C31 — lists and dequeues keep their contents and order

Model: `ParsecVerif.PList` (mirrors parsec/class/list.h and list_item.h branch by branch: the pivot
heuristic with both search directions, the moving cursor of chain_sorted, the `insize` passes of the
bottom-up merge sort, the ring search).  Priorities are unbounded integers, ties are everywhere.

* `push_sorted_spec`     sorted insertion: both search directions give the same list, the order is
                         kept and the new item sits after every item of greater-or-equal priority.
* `chain_sorted_spec`    the cursor algorithm = inserting the ring's items one by one; sorted,
                         permutation, stable w.r.t. existing and earlier items of equal priority.
* `sort_spec`            the merge sort yields a permutation in non-decreasing priority order.
* `ring_push_sorted_spec` ring insertion keeps the ring non-increasing (new item BEFORE equal ones).
* `deque_conservation`, `fifo_order`, `sorted_invariant`, `pop_front_max`  for every call sequence.
* `locked_linearizable`, `locked_realtime`, `locked_mutex`, `locked_complete`  the locked variants
                         under EVERY interleaving of their atomic steps.
-/
namespace ParsecVerif.C31
open ParsecVerif.PList

/-! ## sorted insertion -/

/-- the full statement for `parsec_list_nolock_push_sorted` on a sorted list, whichever way the
    pivot heuristic sends the search -/
theorem push_sorted_spec (l : List Item) (x : Item) (hs : SortedDesc l) :
    pushSorted l x = insFwd x l ∧ insBwd x l = insFwd x l ∧ SortedDesc (pushSorted l x) ∧
    ∃ a b, l = a ++ b ∧ pushSorted l x = a ++ x :: b ∧
      (∀ y ∈ a, x.prio ≤ y.prio) ∧ (∀ y ∈ b, y.prio < x.prio) := by
  obtain ⟨a, b, e, ha, hb⟩ := sorted_split x l hs
  have hf : insFwd x l = a ++ x :: b := by rw [e]; exact insFwd_split x a b ha hb
  have hbw : insBwd x l = a ++ x :: b := by rw [e]; exact insBwd_split x a b ha hb
  have hp : pushSorted l x = a ++ x :: b := by
    unfold pushSorted
    split
    · have : a = [] ∧ b = [] := by simpa using e.symm
      simp [this.1, this.2]
    · split
      · exact hf
      · exact hbw
  refine ⟨hp.trans hf.symm, hbw.trans hf.symm, ?_, a, b, e, hp, ha, hb⟩
  rw [hp]; exact sortedDesc_insert x a b (e ▸ hs) ha hb

/-- contents are kept whatever the state of the list (sorted or not) -/
theorem push_sorted_perm (l : List Item) (x : Item) : (pushSorted l x).Perm (x :: l) :=
  pushSorted_perm l x

theorem insFwd_sorted (x : Item) (l : List Item) (hs : SortedDesc l) : SortedDesc (insFwd x l) := by
  have h := push_sorted_spec l x hs
  rw [← h.1]; exact h.2.2.1

/-- on an unsorted list the two search directions really differ (so the heuristic is only sound
    because callers keep the list sorted) -/
theorem directions_differ_when_unsorted :
    ∃ l x, insFwd x l ≠ insBwd x l := ⟨[⟨1, 0⟩, ⟨3, 1⟩], ⟨2, 2⟩, by decide⟩

/-! ## chain_sorted -/

theorem chainStep_sorted (l : List Item) (i : Nat) (x : Item) (hs : SortedDesc l) (hi : i < l.length) :
    (chainStep (l, i) x).1 = insFwd x l ∧ (chainStep (l, i) x).2 < (insFwd x l).length := by
  unfold chainStep
  simp only
  have hr : restart l i x = 0 ∨ (restart l i x = i ∧ x.prio ≤ l[i].prio) := by
    unfold restart
    rw [List.getElem?_eq_getElem hi]
    simp only
    split
    · left; rfl
    · right; exact ⟨rfl, by omega⟩
  rcases hr with h0 | ⟨h1, h2⟩
  · rw [h0]
    refine ⟨by simp, ?_⟩
    rw [length_insFwd]
    have := scanLen_le x l
    simp only [List.drop_zero]
    omega
  · rw [h1]
    constructor
    · have hge : ∀ y ∈ l.take i, x.prio ≤ y.prio := by
        intro y hy
        have hsp : SortedDesc (l.take i ++ l.drop i) := by rw [List.take_append_drop]; exact hs
        unfold SortedDesc at hsp
        rw [List.pairwise_append] at hsp
        have hm : l[i] ∈ l.drop i := List.mem_drop_iff_getElem.2 ⟨0, by omega, by simp⟩
        have := hsp.2.2 y hy _ hm
        omega
      rw [← insFwd_append_ge x (l.take i) (l.drop i) hge, List.take_append_drop]
    · rw [length_insFwd]
      have := scanLen_le x (l.drop i)
      simp only [List.length_drop] at this
      omega

def insertAll (l ring : List Item) : List Item := ring.foldl (fun acc x => insFwd x acc) l

theorem chainFold_sorted (ring : List Item) (l : List Item) (i : Nat) (hs : SortedDesc l) (hi : i < l.length) :
    (ring.foldl chainStep (l, i)).1 = insertAll l ring := by
  induction ring generalizing l i with
  | nil => rfl
  | cons x t ih =>
    simp only [List.foldl_cons, insertAll]
    have h := chainStep_sorted l i x hs hi
    have e : chainStep (l, i) x = (insFwd x l, (chainStep (l, i) x).2) := Prod.ext h.1 rfl
    rw [e]
    exact ih _ _ (insFwd_sorted x l hs) h.2

theorem insertAll_sorted (ring l : List Item) (hs : SortedDesc l) : SortedDesc (insertAll l ring) := by
  induction ring generalizing l with
  | nil => exact hs
  | cons x t ih => exact ih _ (insFwd_sorted x l hs)

theorem insertAll_perm (ring l : List Item) : (insertAll l ring).Perm (l ++ ring) := by
  induction ring generalizing l with
  | nil => simp [insertAll]
  | cons x t ih =>
    refine (ih (insFwd x l)).trans ?_
    have h1 : (insFwd x l ++ t).Perm (x :: l ++ t) := (insFwd_perm x l).append_right t
    refine h1.trans ?_
    have : (l ++ x :: t).Perm (x :: (l ++ t)) := List.perm_middle
    exact this.symm

/-- the items of priority `k`, in order -/
def ofPrio (k : Int) (l : List Item) : List Item := l.filter (fun y => decide (y.prio = k))

theorem insFwd_ofPrio (x : Item) (l : List Item) (hs : SortedDesc l) (k : Int) :
    ofPrio k (insFwd x l) = ofPrio k l ++ ofPrio k [x] := by
  obtain ⟨a, b, e, ha, hb⟩ := sorted_split x l hs
  subst e
  rw [insFwd_split x a b ha hb]
  unfold ofPrio
  simp only [List.filter_append, List.filter_cons, List.filter_nil]
  by_cases hk : x.prio = k
  · have : b.filter (fun y => decide (y.prio = k)) = [] := by
      rw [List.filter_eq_nil_iff]
      intro y hy
      have := hb y hy
      simp only [decide_eq_true_eq]
      omega
    simp [hk, this]
  · simp [hk]

theorem insertAll_ofPrio (ring l : List Item) (hs : SortedDesc l) (k : Int) :
    ofPrio k (insertAll l ring) = ofPrio k l ++ ofPrio k ring := by
  induction ring generalizing l with
  | nil => simp [insertAll, ofPrio]
  | cons x t ih =>
    have := ih (insFwd x l) (insFwd_sorted x l hs)
    simp only [insertAll, List.foldl_cons] at this ⊢
    rw [this, insFwd_ofPrio x l hs k]
    by_cases hk : x.prio = k <;> simp [ofPrio, hk]

/-- `parsec_list_nolock_chain_sorted` on a sorted list: the cursor optimisation is equivalent to
    inserting the items of the ring one by one (each after the items of greater-or-equal priority);
    the result is sorted, a permutation, and a stable merge: items of equal priority keep the order
    "those of the list first, then those of the ring in ring order". -/
theorem chain_sorted_spec (l ring : List Item) (hs : SortedDesc l) :
    chainSorted l ring = insertAll l ring ∧ SortedDesc (chainSorted l ring) ∧
    (chainSorted l ring).Perm (l ++ ring) ∧
    ∀ k, ofPrio k (chainSorted l ring) = ofPrio k l ++ ofPrio k ring := by
  have h : chainSorted l ring = insertAll l ring := by
    unfold chainSorted
    cases ring with
    | nil => rfl
    | cons r rs =>
      cases l with
      | nil =>
        simp only
        rw [chainFold_sorted rs [r] 0 (List.pairwise_singleton _ r) (by simp)]
        rfl
      | cons h t => exact chainFold_sorted (r :: rs) (h :: t) t.length hs (by simp)
  rw [h]
  exact ⟨rfl, insertAll_sorted ring l hs, insertAll_perm ring l, insertAll_ofPrio ring l hs⟩

theorem chainStep_perm (l : List Item) (i : Nat) (x : Item) : (chainStep (l, i) x).1.Perm (x :: l) := by
  unfold chainStep
  simp only
  generalize restart l i x = j
  have h1 : (l.take j ++ insFwd x (l.drop j)).Perm (l.take j ++ x :: l.drop j) :=
    (insFwd_perm x (l.drop j)).append_left _
  refine h1.trans (List.perm_middle.trans ?_)
  rw [List.take_append_drop]

theorem chainFold_perm (ring : List Item) (st : List Item × Nat) :
    (ring.foldl chainStep st).1.Perm (st.1 ++ ring) := by
  induction ring generalizing st with
  | nil => simp
  | cons x t ih =>
    simp only [List.foldl_cons]
    refine (ih (chainStep st x)).trans ?_
    have h1 := (chainStep_perm st.1 st.2 x).append_right t
    refine h1.trans ?_
    have : (st.1 ++ x :: t).Perm (x :: (st.1 ++ t)) := List.perm_middle
    exact this.symm

/-- contents are kept whatever the state of the list -/
theorem chain_sorted_perm (l ring : List Item) : (chainSorted l ring).Perm (l ++ ring) := by
  unfold chainSorted
  cases ring with
  | nil => simp
  | cons r rs =>
    cases l with
    | nil => simpa using chainFold_perm rs ([r], 0)
    | cons h t => exact chainFold_perm (r :: rs) (h :: t, t.length)

/-! ## sort -/

/-- `parsec_list_nolock_sort`: a permutation in non-decreasing priority order, for every list -/
theorem sort_spec (l : List Item) : SortedAsc (sortList l) ∧ (sortList l).Perm l := by
  unfold sortList
  cases l with
  | nil => exact ⟨List.Pairwise.nil, List.Perm.refl _⟩
  | cons h t =>
    exact ⟨msortLoop_sorted 1 (Nat.le_refl 1) _ (chunkSorted_one _), msortLoop_perm 1 _⟩

/-- the merge takes the `q` run first on ties (the macro is a strict `<`), so the sort is NOT
    stable, contrary to the comment "lower (or same)" in the source; C31 does not ask for it. -/
theorem sort_not_stable : ∃ l, ofPrio 1 (sortList l) ≠ ofPrio 1 l := by
  refine ⟨[⟨1, 0⟩, ⟨1, 1⟩], ?_⟩
  have h : sortList [⟨1, 0⟩, ⟨1, 1⟩] = [⟨1, 1⟩, ⟨1, 0⟩] := by
    unfold sortList
    simp only
    rw [msortLoop]
    simp only [List.length_cons, List.length_nil]
    rw [if_pos (by omega), pass]
    simp only [List.take, List.drop]
    rw [dif_neg (by simp), pass, dif_pos (by simp)]
    rw [mergeQ]
    simp only [Int.lt_irrefl, if_false]
    rw [mergeQ]
    rfl
  rw [h]
  decide

/-! ## ring sorted insertion -/

theorem ring_push_sorted_spec (r : List Item) (x : Item) (hs : SortedDesc r) :
    SortedDesc (ringPushSorted r x) ∧ (ringPushSorted r x).Perm (x :: r) ∧
    ∃ a b, r = a ++ b ∧ ringPushSorted r x = a ++ x :: b ∧
      (∀ y ∈ a, x.prio < y.prio) ∧ (∀ y ∈ b, y.prio ≤ x.prio) := by
  obtain ⟨a, b, e, ha, hb⟩ := sorted_split_strict x r hs
  have hp : ringPushSorted r x = a ++ x :: b := by
    unfold ringPushSorted
    split
    · have : a = [] ∧ b = [] := by simpa using e.symm
      simp [this.1, this.2]
    · rw [e]; exact insRing_split x a b ha hb
  refine ⟨?_, ?_, a, b, e, hp, ha, hb⟩
  · rw [hp]; exact sortedDesc_insert_strict x a b (e ▸ hs) ha hb
  · rw [hp, e]; exact List.perm_middle

/-! ## every sequence of dequeue / sorted calls -/

inductive DOp
  | pushFront (x : Item) | pushBack (x : Item) | pushSorted (x : Item)
  | chainFront (r : List Item) | chainBack (r : List Item) | chainSorted (r : List Item)
  | sort | popFront | popBack

/-- state: the list and the items popped so far (in pop order) -/
def dstep (st : List Item × List Item) : DOp → List Item × List Item
  | .pushFront x => (pushFront st.1 x, st.2)
  | .pushBack x => (pushBack st.1 x, st.2)
  | .pushSorted x => (pushSorted st.1 x, st.2)
  | .chainFront r => (chainFront st.1 r, st.2)
  | .chainBack r => (chainBack st.1 r, st.2)
  | .chainSorted r => (chainSorted st.1 r, st.2)
  | .sort => (sortList st.1, st.2)
  | .popFront => ((popFront st.1).2, st.2 ++ (popFront st.1).1.toList)
  | .popBack => ((popBack st.1).2, st.2 ++ (popBack st.1).1.toList)

def given : DOp → List Item
  | .pushFront x | .pushBack x | .pushSorted x => [x]
  | .chainFront r | .chainBack r | .chainSorted r => r
  | _ => []

theorem popFront_perm (l : List Item) : ((popFront l).1.toList ++ (popFront l).2).Perm l := by
  cases l <;> simp [popFront]

theorem popBack_eq (l : List Item) : (popBack l).2 ++ (popBack l).1.toList = l := by
  unfold popBack
  cases h : l.getLast? with
  | none => simp [List.getLast?_eq_none_iff.1 h]
  | some x =>
    have hne : l ≠ [] := by intro e; simp [e] at h
    have hx : x = l.getLast hne := by
      rw [List.getLast?_eq_some_getLast hne] at h; exact (Option.some.inj h).symm
    simpa [hx] using List.dropLast_concat_getLast hne

theorem perm_push_front (p l : List Item) (x : Item) : (p ++ x :: l).Perm (p ++ l ++ [x]) :=
  List.perm_middle.trans (List.perm_append_singleton x (p ++ l)).symm

theorem dstep_perm (st : List Item × List Item) (op : DOp) :
    ((dstep st op).2 ++ (dstep st op).1).Perm (st.2 ++ st.1 ++ given op) := by
  cases op with
  | pushFront x => simpa [dstep, given, pushFront] using perm_push_front st.2 st.1 x
  | pushBack x => simp [dstep, given, pushBack]
  | pushSorted x =>
    simp only [dstep, given]
    refine ((pushSorted_perm st.1 x).append_left st.2).trans ?_
    simpa using perm_push_front st.2 st.1 x
  | chainFront r =>
    simp only [dstep, given, chainFront]
    rw [List.append_assoc]
    exact List.Perm.append_left _ List.perm_append_comm
  | chainBack r => simp [dstep, given, chainBack]
  | chainSorted r =>
    simp only [dstep, given]
    rw [List.append_assoc]
    exact (chain_sorted_perm st.1 r).append_left st.2
  | sort =>
    simp only [dstep, given, List.append_nil]
    exact (sort_spec st.1).2.append_left st.2
  | popFront =>
    simp only [dstep, given, List.append_nil]
    rw [List.append_assoc]
    exact (popFront_perm st.1).append_left st.2
  | popBack =>
    simp only [dstep, given, List.append_nil]
    rw [List.append_assoc]
    refine List.Perm.append_left st.2 ?_
    have := popBack_eq st.1
    exact (List.perm_append_comm).trans (List.Perm.of_eq this)

def givenAll (ops : List DOp) : List Item := (ops.map given).flatten

theorem drun_perm (ops : List DOp) (st : List Item × List Item) :
    ((ops.foldl dstep st).2 ++ (ops.foldl dstep st).1).Perm (st.2 ++ st.1 ++ givenAll ops) := by
  induction ops generalizing st with
  | nil => simp [givenAll]
  | cons op t ih =>
    simp only [List.foldl_cons]
    refine (ih (dstep st op)).trans ?_
    have h := (dstep_perm st op).append_right (givenAll t)
    refine h.trans ?_
    simp [givenAll, List.append_assoc]

/-- Conservation, for EVERY sequence of push / pop / chain / sorted-insert / sort calls on a list that
    starts empty: the items popped so far together with the current contents are exactly the items
    handed in (nothing lost, nothing duplicated) — whether or not the list was kept sorted. -/
theorem deque_conservation (ops : List DOp) :
    ((ops.foldl dstep ([], [])).2 ++ (ops.foldl dstep ([], [])).1).Perm (givenAll ops) := by
  simpa using drun_perm ops ([], [])

/-- fifo.h: push = push_back, chain = chain_back, pop = pop_front -/
inductive FOp
  | push (x : Item) | chain (r : List Item) | pop

def fstep (st : List Item × List Item) : FOp → List Item × List Item
  | .push x => (pushBack st.1 x, st.2)
  | .chain r => (chainBack st.1 r, st.2)
  | .pop => ((popFront st.1).2, st.2 ++ (popFront st.1).1.toList)

def fgiven : FOp → List Item
  | .push x => [x] | .chain r => r | .pop => []

theorem frun_order (ops : List FOp) (st : List Item × List Item) :
    (ops.foldl fstep st).2 ++ (ops.foldl fstep st).1 = st.2 ++ st.1 ++ (ops.map fgiven).flatten := by
  induction ops generalizing st with
  | nil => simp
  | cons op t ih =>
    simp only [List.foldl_cons, List.map_cons, List.flatten_cons]
    rw [ih (fstep st op)]
    cases op with
    | push x => simp [fstep, fgiven, pushBack]
    | chain r => simp [fstep, fgiven, chainBack]
    | pop =>
      cases h : st.1 with
      | nil => simp [fstep, fgiven, popFront, h]
      | cons a l => simp [fstep, fgiven, popFront, h]

/-- FIFO order, for EVERY sequence of fifo calls: the items popped so far followed by the current
    contents are the items pushed, in push order (chains keep their ring order). -/
theorem fifo_order (ops : List FOp) :
    (ops.foldl fstep ([], [])).2 ++ (ops.foldl fstep ([], [])).1 = (ops.map fgiven).flatten := by
  simpa using frun_order ops ([], [])

/-- the calls that keep a list sorted -/
inductive SOp
  | pushSorted (x : Item) | chainSorted (r : List Item) | popFront | popBack

def sstep (l : List Item) : SOp → List Item
  | .pushSorted x => pushSorted l x
  | .chainSorted r => chainSorted l r
  | .popFront => (popFront l).2
  | .popBack => (popBack l).2

theorem sstep_sorted (l : List Item) (op : SOp) (hs : SortedDesc l) : SortedDesc (sstep l op) := by
  cases op with
  | pushSorted x => exact (push_sorted_spec l x hs).2.2.1
  | chainSorted r => exact (chain_sorted_spec l r hs).2.1
  | popFront =>
    cases l with
    | nil => exact hs
    | cons a t => exact (List.pairwise_cons.1 hs).2
  | popBack =>
    simp only [sstep]
    have e := popBack_eq l
    have : ((popBack l).2).Sublist l := by
      conv => rhs; rw [← e]
      exact List.sublist_append_left _ _
    exact hs.sublist this

/-- Invariant, for EVERY sequence of push_sorted / chain_sorted / pop_front / pop_back calls: a list
    that starts empty (or sorted) is in non-increasing priority order after every call. -/
theorem sorted_invariant (ops : List SOp) (l : List Item) (hs : SortedDesc l) :
    SortedDesc (ops.foldl sstep l) := by
  induction ops generalizing l with
  | nil => exact hs
  | cons op t ih => exact ih _ (sstep_sorted l op hs)

/-- consequence used by the schedulers: pop_front of a sorted list returns an item of maximal
    priority, and among those the one inserted first -/
theorem pop_front_max (l : List Item) (hs : SortedDesc l) (x : Item) (h : (popFront l).1 = some x) :
    ∀ y ∈ l, y.prio ≤ x.prio := by
  cases l with
  | nil => simp [popFront] at h
  | cons a t =>
    simp only [popFront, Option.some.injEq] at h
    subst h
    intro y hy
    rcases List.mem_cons.1 hy with rfl | hy
    · exact Int.le_refl _
    · exact (List.pairwise_cons.1 hs).1 y hy

/-! ## the locked variants, every interleaving -/

def isFence : Pc → Bool
  | .fence _ => true
  | _ => false

/-- number of own calls whose linearization point has passed -/
def linCount : Pc → Nat
  | .idle k => k | .cas k => k | .fence k => k + 1

/-- the calls of thread `t` in linearization order -/
def proj (t : Nat) (h : List Ev) : List LOp := (h.filter (fun e => e.tid == t)).map (·.call)

def effOk (e : Ev) : Prop := e.op = e.call ∨ (e.op = .tryFail ∧ isTry e.call = true)

structure LInv (progs : List (List LOp)) (l0 : List Item) (s : LState) : Prop where
  len   : s.pcs.length = progs.length
  rep   : replay l0 s.hist = (s.l, true)
  mutex : s.pcs.countP isFence = if s.lock then 1 else 0
  order : ∀ t, ∀ pc prog, s.pcs[t]? = some pc → progs[t]? = some prog → proj t s.hist = prog.take (linCount pc)
  eff   : ∀ e ∈ s.hist, effOk e

theorem replay_append (l0 : List Item) (h : List Ev) (e : Ev) :
    replay l0 (h ++ [e]) = ((sem e.op (replay l0 h).1).1, (replay l0 h).2 && retOk e (replay l0 h).1) := by
  induction h generalizing l0 with
  | nil => simp only [List.nil_append, replay, Bool.and_true, Bool.true_and]
  | cons a t ih =>
    simp only [List.cons_append, replay, ih, Bool.and_assoc]

theorem countP_set_move (p : Pc → Bool) (l : List Pc) (i : Nat) (a : Pc) (h : i < l.length) :
    (l.set i a).countP p + (if p l[i] then 1 else 0) = l.countP p + (if p a then 1 else 0) := by
  rw [List.countP_set h]
  have := List.boole_getElem_le_countP (p := p) h
  omega

theorem countP_fence_same (l : List Pc) (t : Nat) (pc' : Pc) (h : t < l.length)
    (hx : isFence l[t] = false) (hy : isFence pc' = false) :
    (l.set t pc').countP isFence = l.countP isFence := by
  have m := countP_set_move isFence l t pc' h
  simp [hx, hy] at m
  exact m

theorem countP_fence_enter (l : List Pc) (t k : Nat) (h : t < l.length) (hx : isFence l[t] = false) :
    (l.set t (.fence k)).countP isFence = l.countP isFence + 1 := by
  have m := countP_set_move isFence l t (.fence k) h
  rw [hx] at m
  simpa [isFence] using m

theorem countP_fence_leave (l : List Pc) (t : Nat) (pc' : Pc) (h : t < l.length)
    (hx : isFence l[t] = true) (hy : isFence pc' = false) :
    (l.set t pc').countP isFence + 1 = l.countP isFence := by
  have m := countP_set_move isFence l t pc' h
  simp [hx, hy] at m
  exact m

theorem proj_append_other (t t' : Nat) (h : List Ev) (e : Ev) (hne : e.tid = t') (hd : t' ≠ t) :
    proj t (h ++ [e]) = proj t h := by
  unfold proj
  have : (e.tid == t) = false := by simp [hne, hd]
  simp [List.filter_append, this]

theorem proj_append_self (t : Nat) (h : List Ev) (e : Ev) (he : e.tid = t) :
    proj t (h ++ [e]) = proj t h ++ [e.call] := by
  unfold proj
  have : (e.tid == t) = true := by simp [he]
  simp [List.filter_append, this]

theorem take_succ_of_get (prog : List LOp) (k : Nat) (op : LOp) (h : prog[k]? = some op) :
    prog.take (k + 1) = prog.take k ++ [op] := by
  rw [List.take_add_one, h]; rfl

theorem sem_precheck_nil (op : LOp) (h : precheck op = true) : sem op [] = ([], .item none) := by
  cases op <;> simp [precheck] at h <;> simp [sem, popFront, popBack]

theorem linv_init (progs : List (List LOp)) (l0 : List Item) : LInv progs l0 (linit l0 progs.length) := by
  refine ⟨by simp [linit], by simp [linit, replay], ?_, ?_, by simp [linit]⟩
  · simp [linit, List.countP_replicate, isFence]
  · intro t pc prog hpc _
    simp only [linit] at hpc
    rw [List.getElem?_replicate] at hpc
    split at hpc
    · cases hpc; simp [linit, proj, linCount]
    · cases hpc

/-- frame: what a step of thread `t` that appends (or not) an event of `t` and moves only `t`'s
    program point does to the per-thread order of the OTHER threads -/
theorem order_other (progs : List (List LOp)) (s : LState) (t : Nat) (pcs' : List Pc) (hist' : List Ev)
    (hp : ∃ pc', pcs' = s.pcs.set t pc') (hh : hist' = s.hist ∨ ∃ e, e.tid = t ∧ hist' = s.hist ++ [e])
    (ho : ∀ u, ∀ pc prog, s.pcs[u]? = some pc → progs[u]? = some prog → proj u s.hist = prog.take (linCount pc))
    (u : Nat) (hu : u ≠ t) (pc : Pc) (prog : List LOp) (h1 : pcs'[u]? = some pc) (h2 : progs[u]? = some prog) :
    proj u hist' = prog.take (linCount pc) := by
  obtain ⟨pc', rfl⟩ := hp
  rw [List.getElem?_set_ne (Ne.symm hu)] at h1
  rcases hh with rfl | ⟨e, he, rfl⟩
  · exact ho u pc prog h1 h2
  · rw [proj_append_other u t s.hist e he (Ne.symm hu)]
    exact ho u pc prog h1 h2

theorem linv_step (progs : List (List LOp)) (l0 : List Item) (s : LState) (t : Nat)
    (h : LInv progs l0 s) : LInv progs l0 (lstep progs s t) := by
  unfold lstep
  cases hpc : s.pcs[t]? with
  | none => simpa using h
  | some pc =>
    cases hpr : progs[t]? with
    | none => cases pc <;> simpa using h
    | some prog =>
      obtain ⟨hi, hx⟩ := getElem_of_getElem? hpc
      have hord := h.order t pc prog hpc hpr
      cases pc with
      | idle k =>
        simp only
        cases hop : prog[k]? with
        | none => simpa using h
        | some op =>
          simp only
          split
          · -- emptiness pre-check succeeded: the call returns NULL, linearized at this read
            rename_i hc
            simp only [Bool.and_eq_true] at hc
            have hl : s.l = [] := by simpa using hc.2
            refine ⟨by simp [h.len], ?_, ?_, ?_, ?_⟩
            · rw [replay_append, h.rep]; simp [hl, sem_precheck_nil op hc.1, retOk]
            · simp only
              rw [countP_fence_same s.pcs t _ hi (by rw [hx]; rfl) rfl]; exact h.mutex
            · intro u pc' prog' h1 h2
              by_cases hu : u = t
              · subst hu
                simp only [List.getElem?_set_self hi, Option.some.injEq] at h1
                subst h1
                rw [hpr] at h2; cases h2
                rw [proj_append_self u s.hist _ rfl, hord]
                simp only [linCount]
                exact (take_succ_of_get prog k op hop).symm
              · exact order_other progs s t _ _ ⟨_, rfl⟩ (Or.inr ⟨_, rfl, rfl⟩) h.order u hu pc' prog' h1 h2
            · intro e he
              rcases List.mem_append.1 he with he | he
              · exact h.eff e he
              · simp only [List.mem_singleton] at he; subst he; exact Or.inl rfl
          · refine ⟨by simp [h.len], h.rep, ?_, ?_, h.eff⟩
            · simp only
              rw [countP_fence_same s.pcs t _ hi (by rw [hx]; rfl) rfl]; exact h.mutex
            · intro u pc' prog' h1 h2
              by_cases hu : u = t
              · subst hu
                simp only [List.getElem?_set_self hi, Option.some.injEq] at h1
                subst h1
                rw [hpr] at h2; cases h2
                simpa [linCount] using hord
              · exact order_other progs s t _ _ ⟨_, rfl⟩ (Or.inl rfl) h.order u hu pc' prog' h1 h2
      | cas k =>
        simp only
        cases hop : prog[k]? with
        | none => simpa using h
        | some op =>
          simp only
          by_cases hlk : s.lock = true
          · rw [if_pos hlk]
            by_cases htry : isTry op = true
            · -- trylock failed: returns NULL, no effect
              rw [if_pos htry]
              refine ⟨by simp [h.len], ?_, ?_, ?_, ?_⟩
              · rw [replay_append, h.rep]; simp [sem, retOk]
              · simp only
                rw [countP_fence_same s.pcs t _ hi (by rw [hx]; rfl) rfl]; exact h.mutex
              · intro u pc' prog' h1 h2
                by_cases hu : u = t
                · subst hu
                  simp only [List.getElem?_set_self hi, Option.some.injEq] at h1
                  subst h1
                  rw [hpr] at h2; cases h2
                  rw [proj_append_self u s.hist _ rfl, hord]
                  simp only [linCount]
                  exact (take_succ_of_get prog k op hop).symm
                · exact order_other progs s t _ _ ⟨_, rfl⟩ (Or.inr ⟨_, rfl, rfl⟩) h.order u hu pc' prog' h1 h2
              · intro e he
                rcases List.mem_append.1 he with he | he
                · exact h.eff e he
                · simp only [List.mem_singleton] at he; subst he; exact Or.inr ⟨rfl, htry⟩
            · rw [if_neg htry]; exact h
          · -- lock taken: the critical section runs now; this is the linearization point
            rw [if_neg hlk]
            have hl0 : s.lock = false := by simpa using hlk
            refine ⟨by simp [h.len], ?_, ?_, ?_, ?_⟩
            · rw [replay_append, h.rep]; simp [retOk]
            · have hm0 : s.pcs.countP isFence = 0 := by
                have := h.mutex; rw [hl0] at this; simpa using this
              simp only
              rw [countP_fence_enter s.pcs t k hi (by rw [hx]; rfl), hm0]; rfl
            · intro u pc' prog' h1 h2
              by_cases hu : u = t
              · subst hu
                simp only [List.getElem?_set_self hi, Option.some.injEq] at h1
                subst h1
                rw [hpr] at h2; cases h2
                rw [proj_append_self u s.hist _ rfl, hord]
                simp only [linCount]
                exact (take_succ_of_get prog k op hop).symm
              · exact order_other progs s t _ _ ⟨_, rfl⟩ (Or.inr ⟨_, rfl, rfl⟩) h.order u hu pc' prog' h1 h2
            · intro e he
              rcases List.mem_append.1 he with he | he
              · exact h.eff e he
              · simp only [List.mem_singleton] at he; subst he; exact Or.inl rfl
      | fence k =>
        simp only
        have hlv := countP_fence_leave s.pcs t (.idle (k + 1)) hi (by rw [hx]; rfl) rfl
        have hm := h.mutex
        have hone : s.pcs.countP isFence = 1 := by
          cases hl : s.lock with
          | true => rw [hl] at hm; simpa using hm
          | false =>
            have hpos : 0 < s.pcs.countP isFence :=
              List.countP_pos_iff.2 ⟨s.pcs[t], List.getElem_mem hi, by rw [hx]; rfl⟩
            rw [hl] at hm; simp only [Bool.false_eq_true, if_false] at hm; omega
        refine ⟨by simp [h.len], h.rep, ?_, ?_, h.eff⟩
        · simp only
          have : (s.pcs.set t (.idle (k + 1))).countP isFence = 0 := by omega
          rw [this]; rfl
        · intro u pc' prog' h1 h2
          by_cases hu : u = t
          · subst hu
            simp only [List.getElem?_set_self hi, Option.some.injEq] at h1
            subst h1
            rw [hpr] at h2; cases h2
            simpa [linCount] using hord
          · exact order_other progs s t _ _ ⟨_, rfl⟩ (Or.inl rfl) h.order u hu pc' prog' h1 h2

theorem linv_run (progs : List (List LOp)) (l0 : List Item) (sched : List Nat) (s : LState)
    (h : LInv progs l0 s) : LInv progs l0 (lrun progs s sched) := by
  induction sched generalizing s with
  | nil => exact h
  | cons t ts ih => exact ih _ (linv_step progs l0 s t h)

/-- Linearizability of the locked list / dequeue / fifo calls, for EVERY number of threads, EVERY
    program (sequence of locked calls) per thread, EVERY initial list and EVERY schedule of the atomic
    steps: the ghost history (calls in the order of their linearization points — the critical
    section, the unlocked emptiness test that answered "empty", or the failed trylock)
    * replayed sequentially from the initial list produces exactly the current list and exactly the
      values the calls returned,
    * contains, for each thread, exactly the calls whose linearization point it has passed, in
      program order (so it is an interleaving of the programs),
    * contains a `tryFail` (no effect, NULL) only for try_pop calls — the documented spurious miss. -/
theorem locked_linearizable (progs : List (List LOp)) (l0 : List Item) (sched : List Nat) :
    replay l0 (lrun progs (linit l0 progs.length) sched).hist = ((lrun progs (linit l0 progs.length) sched).l, true) ∧
    (∀ t pc prog, (lrun progs (linit l0 progs.length) sched).pcs[t]? = some pc → progs[t]? = some prog →
        proj t (lrun progs (linit l0 progs.length) sched).hist = prog.take (linCount pc)) ∧
    (∀ e ∈ (lrun progs (linit l0 progs.length) sched).hist, effOk e) := by
  have h := linv_run progs l0 sched _ (linv_init progs l0)
  exact ⟨h.rep, h.order, h.eff⟩

/-- Mutual exclusion of the CAS spin lock as used by the list, every interleaving: at most one thread
    is between its successful CAS and its unlock, and exactly then the lock word is 1.  (This is what
    justifies executing a critical section as one model step.) -/
theorem locked_mutex (progs : List (List LOp)) (l0 : List Item) (sched : List Nat) :
    (lrun progs (linit l0 progs.length) sched).pcs.countP isFence =
      if (lrun progs (linit l0 progs.length) sched).lock then 1 else 0 :=
  (linv_run progs l0 sched _ (linv_init progs l0)).mutex

/-- At quiescence (every thread has returned from its last call) the history is a complete
    linearization: each thread's calls appear exactly once, in program order. -/
theorem locked_complete (progs : List (List LOp)) (l0 : List Item) (sched : List Nat)
    (hq : ∀ (t : Nat) (prog : List LOp), progs[t]? = some prog → (lrun progs (linit l0 progs.length) sched).pcs[t]? = some (Pc.idle prog.length)) :
    ∀ t prog, progs[t]? = some prog → proj t (lrun progs (linit l0 progs.length) sched).hist = prog := by
  intro t prog hp
  have h := (locked_linearizable progs l0 sched).2.1 t _ prog (hq t prog hp) hp
  simpa [linCount] using h

theorem lstep_hist_prefix (progs : List (List LOp)) (s : LState) (t : Nat) :
    ∃ suf, (lstep progs s t).hist = s.hist ++ suf := by
  unfold lstep
  split
  · split
    · exact ⟨[], by simp⟩
    · split
      · exact ⟨_, rfl⟩
      · exact ⟨[], by simp⟩
  · split
    · exact ⟨[], by simp⟩
    · split
      · split
        · exact ⟨_, rfl⟩
        · exact ⟨[], by simp⟩
      · exact ⟨_, rfl⟩
  · exact ⟨[], by simp⟩
  · exact ⟨[], by simp⟩

theorem lrun_hist_prefix (progs : List (List LOp)) (sched : List Nat) (s : LState) :
    ∃ suf, (lrun progs s sched).hist = s.hist ++ suf := by
  induction sched generalizing s with
  | nil => exact ⟨[], by simp [lrun]⟩
  | cons t ts ih =>
    obtain ⟨a, ha⟩ := lstep_hist_prefix progs s t
    obtain ⟨b, hb⟩ := ih (lstep progs s t)
    refine ⟨a ++ b, ?_⟩
    simp only [lrun, List.foldl_cons] at hb ⊢
    rw [hb, ha, List.append_assoc]

/-- Real-time order.  Cut any execution at any moment (`sched1`), continue arbitrarily (`sched2`): the
    history at the cut is a prefix of the later history, and at the cut it contains, for each thread,
    exactly the calls whose linearization point has passed (`linCount` of its program point: all the
    calls that have returned, none of the calls not yet invoked).  Hence a call that returned before
    another one was invoked precedes it in the linearization. -/
theorem locked_realtime (progs : List (List LOp)) (l0 : List Item) (sched1 sched2 : List Nat) :
    (∃ suf, (lrun progs (linit l0 progs.length) (sched1 ++ sched2)).hist =
            (lrun progs (linit l0 progs.length) sched1).hist ++ suf) ∧
    (∀ t pc prog, (lrun progs (linit l0 progs.length) sched1).pcs[t]? = some pc → progs[t]? = some prog →
        (proj t (lrun progs (linit l0 progs.length) sched1).hist).length = min (linCount pc) prog.length) := by
  constructor
  · have : lrun progs (linit l0 progs.length) (sched1 ++ sched2) =
        lrun progs (lrun progs (linit l0 progs.length) sched1) sched2 := by
      simp [lrun, List.foldl_append]
    rw [this]
    exact lrun_hist_prefix progs sched2 _
  · intro t pc prog h1 h2
    rw [(locked_linearizable progs l0 sched1).2.1 t pc prog h1 h2, List.length_take]

/-! ## non-vacuity: the hypotheses hold on non-trivial states, with ties -/

def exL : List Item := [⟨5, 0⟩, ⟨3, 1⟩, ⟨3, 2⟩, ⟨1, 3⟩]

theorem exL_sorted : SortedDesc exL := by unfold SortedDesc exL; decide

-- forward search (3 > pivot 0): after both existing items of priority 3
example : pushSorted exL ⟨3, 9⟩ = [⟨5, 0⟩, ⟨3, 1⟩, ⟨3, 2⟩, ⟨3, 9⟩, ⟨1, 3⟩] := by decide
-- backward search (0 ≤ pivot): same rule, found from the tail
example : pushSorted exL ⟨0, 9⟩ = exL ++ [⟨0, 9⟩] := by decide
example : pushSorted [⟨-1, 0⟩, ⟨-4, 1⟩, ⟨-4, 2⟩] ⟨-4, 9⟩ = [⟨-1, 0⟩, ⟨-4, 1⟩, ⟨-4, 2⟩, ⟨-4, 9⟩] := by decide
-- the pivot expression is 1 exactly when the whole sum is 2, e.g. head 2, tail 1
example : pivot 2 1 = 1 ∧ pivot 5 1 = 0 ∧ pivot 100 50 = 0 := by decide
example : SortedDesc (pushSorted exL ⟨3, 9⟩) := (push_sorted_spec exL ⟨3, 9⟩ exL_sorted).2.2.1

-- chain_sorted: cursor restarts (4 after 3), ties go after existing ones, ring order kept among ties
example : chainSorted exL [⟨3, 7⟩, ⟨4, 8⟩, ⟨0, 9⟩, ⟨3, 10⟩] =
    [⟨5, 0⟩, ⟨4, 8⟩, ⟨3, 1⟩, ⟨3, 2⟩, ⟨3, 7⟩, ⟨3, 10⟩, ⟨1, 3⟩, ⟨0, 9⟩] := by decide
example : ofPrio 3 (chainSorted exL [⟨3, 7⟩, ⟨4, 8⟩, ⟨0, 9⟩, ⟨3, 10⟩]) = [⟨3, 1⟩, ⟨3, 2⟩, ⟨3, 7⟩, ⟨3, 10⟩] := by
  rw [(chain_sorted_spec exL _ exL_sorted).2.2.2 3]; decide
example : chainSorted [] [⟨1, 0⟩, ⟨2, 1⟩, ⟨1, 2⟩] = [⟨2, 1⟩, ⟨1, 0⟩, ⟨1, 2⟩] := by decide

-- sort: no hypothesis; an instance with ties
example : SortedAsc (sortList [⟨3, 0⟩, ⟨1, 1⟩, ⟨2, 2⟩, ⟨1, 3⟩, ⟨3, 4⟩]) ∧
    (sortList [⟨3, 0⟩, ⟨1, 1⟩, ⟨2, 2⟩, ⟨1, 3⟩, ⟨3, 4⟩]).Perm [⟨3, 0⟩, ⟨1, 1⟩, ⟨2, 2⟩, ⟨1, 3⟩, ⟨3, 4⟩] := sort_spec _

-- ring: the new item goes BEFORE the items of equal priority; a new maximum becomes the ring head
example : ringPushSorted exL ⟨3, 9⟩ = [⟨5, 0⟩, ⟨3, 9⟩, ⟨3, 1⟩, ⟨3, 2⟩, ⟨1, 3⟩] := by decide
example : ringPushSorted exL ⟨7, 9⟩ = ⟨7, 9⟩ :: exL := by decide
example : ringPushSorted exL ⟨0, 9⟩ = exL ++ [⟨0, 9⟩] := by decide

-- call sequences
example : (([.push ⟨1, 0⟩, .chain [⟨2, 1⟩, ⟨0, 2⟩], .pop, .push ⟨5, 3⟩, .pop] : List FOp).foldl fstep ([], [])) =
    ([⟨0, 2⟩, ⟨5, 3⟩], [⟨1, 0⟩, ⟨2, 1⟩]) := by decide
example : SortedDesc (([.pushSorted ⟨1, 0⟩, .chainSorted [⟨2, 1⟩, ⟨1, 2⟩], .popBack, .pushSorted ⟨2, 3⟩] : List SOp).foldl sstep []) :=
  sorted_invariant _ [] List.Pairwise.nil
example : (popFront exL).1 = some ⟨5, 0⟩ := by decide

-- a concurrent execution: thread 0 push_sorted then pop_front, thread 1 try_pop_back then push_back;
-- thread 1 loses the trylock (step 3) while thread 0 is between its CAS and its unlock
def exProgs : List (List LOp) := [[.pushSorted ⟨4, 10⟩, .popFront], [.tryPopBack, .pushBack ⟨0, 11⟩]]
def exSched : List Nat := [0, 1, 0, 1, 0, 1, 1, 1, 0, 0, 0]
example : (lrun exProgs (linit exL 2) exSched).pcs = [.idle 2, .idle 2] := by decide
example : (lrun exProgs (linit exL 2) exSched).l = [⟨4, 10⟩, ⟨3, 1⟩, ⟨3, 2⟩, ⟨1, 3⟩, ⟨0, 11⟩] := by decide
-- cut after 5 steps: thread 0 has returned from its first call, thread 1's second call is not yet invoked
example : (lrun exProgs (linit exL 2) (exSched.take 5)).hist.map (fun e => (e.tid, e.op)) =
    [(0, .pushSorted ⟨4, 10⟩), (1, .tryFail)] := by decide
example : (lrun exProgs (linit exL 2) exSched).hist.map (fun e => (e.tid, e.op)) =
    [(0, .pushSorted ⟨4, 10⟩), (1, .tryFail), (1, .pushBack ⟨0, 11⟩), (0, .popFront)] := by decide

end ParsecVerif.C31
