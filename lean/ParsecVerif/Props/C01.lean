import ParsecVerif.Proofs.Ptg
import ParsecVerif.Props.Runtime
import ParsecVerif.Proofs.PtgRt3
/-!
# C01 — every PTG task instance runs exactly once  (enumeration / counting half)

This file carries the part of C01 that is about the execution space itself, for EVERY program of the AST
(`Model/Ptg.lean`) and arbitrary range functions:

* `C01_space_nodup`, `C01_instances_nodup` — the enumeration of `internal_init` never lists an instance twice
  (within a class, and across classes);
* `C01_space_eq_constraints` — it lists exactly the local assignments satisfying the range constraints;
* `C01_count` — the number of tasks announced to termination detection (`initial_number_tasks`) is the number of
  local instances, for every rank and process count;  `C01_local_partition` — every instance is local to exactly one rank;
* `C01_startup_partial` — with positive steps the generated startup function creates exactly the startup instances
  of the space, once each, in enumeration order;
* `C01_startup_full_false` (+ `negstep_*`) — the unrestricted statement is false of the generated code: for a range with
  a negative step the startup function creates nothing (or never terminates) while `internal_init` counts the
  instances, and the successor iterator's range test rejects every instance of such a class.  Replayed on the real
  generated code by checks/C01.py (corpus/C01/001-negstep-startup.case, 002-negstep-target.case).

The dataflow-machine half is at the end of this file (section "Exactly once under every schedule"): the task graph
`PtgRt.graphOf p` of a `WellFormed` program is a well-formed dataflow graph (`C01_graph_wf`), hence — by the theorems of
`Props/Runtime.lean`, which hold for every worker count, every AGAIN pattern and every interleaving —
`C01_exactly_once`: in every maximal run every instance of the space has completed exactly once and nothing else ever
starts, answers AGAIN or completes; `C01_never_twice`: at no moment of any run has an instance completed twice;
`C01_no_deadlock` / `C01_terminates`: a run that is not complete can always be extended and every transition decreases
a natural measure.
-/
namespace ParsecVerif.C01
open ParsecVerif.Ptg

/-- no instance of a class is enumerated twice -/
theorem C01_space_nodup (p : Program) (c : Nat) : (space p c).Nodup := by
  unfold space
  split
  · exact nodup_enumSem _ _
  · exact List.nodup_nil

/-- the enumerated space is exactly the set of local assignments that satisfy the range constraints -/
theorem C01_space_eq_constraints (p : Program) (c : Nat) (cl : TaskClass) (hc : p.classes[c]? = some cl) (a : List Int) :
    a ∈ space p c ↔ Sat (cl.sems p.globals) [] a := by
  simp only [space, hc, spaceOf]
  exact mem_enumSem_iff _ _ _

theorem mem_space_length (p : Program) (c : Nat) (cl : TaskClass) (hc : p.classes[c]? = some cl) (a : List Int)
    (h : a ∈ space p c) : a.length = cl.locals.length := by
  simp only [space, hc, spaceOf] at h
  simpa [TaskClass.sems] using length_of_mem_enumSem _ _ _ h

theorem nodup_map_inst (c : Nat) (l : List (List Int)) (h : l.Nodup) : (l.map fun a => (⟨c, a⟩ : Instance)).Nodup := by
  rw [List.nodup_iff_pairwise_ne] at *
  rw [List.pairwise_map]
  exact h.imp (fun hne heq => hne (by injection heq))

theorem nodup_flatMap_classes (n : Nat) (f : Nat → List (List Int)) (hf : ∀ c, (f c).Nodup) :
    ((List.range n).flatMap fun c => (f c).map fun a => (⟨c, a⟩ : Instance)).Nodup := by
  rw [List.nodup_iff_pairwise_ne, List.pairwise_flatMap]
  refine ⟨fun c _ => ?_, ?_⟩
  · have := nodup_map_inst c _ (hf c)
    rwa [List.nodup_iff_pairwise_ne] at this
  · have := @List.nodup_range n
    rw [List.nodup_iff_pairwise_ne] at this
    refine this.imp ?_
    intro c d hcd x hx y hy hxy
    simp only [List.mem_map] at hx hy
    obtain ⟨_, _, rfl⟩ := hx
    obtain ⟨_, _, rfl⟩ := hy
    exact hcd (by injection hxy)

/-- no task instance of the program is enumerated twice -/
theorem C01_instances_nodup (p : Program) : (allInstances p).Nodup :=
  nodup_flatMap_classes _ _ (C01_space_nodup p)

theorem nodup_filter {α} (q : α → Bool) (l : List α) (h : l.Nodup) : (l.filter q).Nodup := by
  rw [List.nodup_iff_pairwise_ne] at *
  exact h.sublist List.filter_sublist

theorem localSpace_nodup (p : Program) (c rank nodes : Nat) : (localSpace p c rank nodes).Nodup := by
  unfold localSpace
  split
  · exact nodup_filter _ _ (nodup_enumSem _ _)
  · exact List.nodup_nil

theorem C01_local_instances_nodup (p : Program) (rank nodes : Nat) : (localInstances p rank nodes).Nodup :=
  nodup_flatMap_classes _ _ (fun c => localSpace_nodup p c rank nodes)

theorem length_flatMap_map (n : Nat) (f : Nat → List (List Int)) :
    ((List.range n).flatMap fun c => (f c).map fun a => (⟨c, a⟩ : Instance)).length = ((List.range n).map fun c => (f c).length).sum := by
  induction (List.range n) with
  | nil => simp
  | cons x xs ih => simp [List.flatMap_cons, ih]

/-- the announced number of tasks is the number of local instances, for every rank and number of processes -/
theorem C01_count (p : Program) (rank nodes : Nat) :
    announcedNbTasks p rank nodes = (localInstances p rank nodes).length := by
  unfold announcedNbTasks localInstances
  rw [length_flatMap_map]

/-- an instance is local to `rank` iff it is in the space and its placement maps to `rank` -/
theorem C01_local_iff (p : Program) (c : Nat) (cl : TaskClass) (hc : p.classes[c]? = some cl) (rank nodes : Nat) (a : List Int) :
    a ∈ localSpace p c rank nodes ↔ a ∈ space p c ∧ normMod (eval p.globals a cl.place) nodes = (rank : Int) := by
  simp [localSpace, space, hc, List.mem_filter]

/-- with `nodes ≥ 1` processes every instance of the space is local to exactly one rank -/
theorem C01_local_partition (p : Program) (c : Nat) (cl : TaskClass) (hc : p.classes[c]? = some cl) (nodes : Nat) (hn : 0 < nodes)
    (a : List Int) (ha : a ∈ space p c) :
    ∃ r, r < nodes ∧ a ∈ localSpace p c r nodes ∧ ∀ r', a ∈ localSpace p c r' nodes → r' = r := by
  have h0 : 0 ≤ normMod (eval p.globals a cl.place) nodes := Int.emod_nonneg _ (by omega)
  have h1 : normMod (eval p.globals a cl.place) nodes < nodes := Int.emod_lt_of_pos _ (by omega)
  refine ⟨(normMod (eval p.globals a cl.place) nodes).toNat, by omega, ?_, ?_⟩
  · rw [C01_local_iff p c cl hc]; exact ⟨ha, by omega⟩
  · intro r' hr'
    rw [C01_local_iff p c cl hc] at hr'
    omega

/-! ### Startup enumeration -/

/-- The full statement: the startup function of every class creates exactly the startup instances of the space. -/
def C01_startup_full : Prop :=
  ∀ (p : Program) (c : Nat) (cl : TaskClass), p.classes[c]? = some cl → stepsOkSem (cl.sems p.globals) [] = true →
    startupEnum p c = some ((space p c).filter (isStartup p.globals cl))

/-- Proved part: with strictly positive steps at every reached loop header (constants or expressions). -/
theorem C01_startup_partial (p : Program) (c : Nat) (cl : TaskClass) (hc : p.classes[c]? = some cl)
    (hpos : StepsPositive (cl.sems p.globals) []) :
    startupEnum p c = some ((space p c).filter (isStartup p.globals cl)) := by
  simp only [startupEnum, hc, space, spaceOf, startupSem_eq _ _ hpos, Option.map_some]

/-- `T(k)`, `k = 3 .. 0 .. -1`, one READ flow from the collection: four startup instances -/
def negstep : Program :=
  { globals := [],
    classes := [{ name := "T", locals := [.range ⟨.const 3, .const 0, .const (-1)⟩], isParam := [true],
                  place := .var 0, prio := none,
                  flows := [{ access := .read, ins := [⟨none, .coll (.var 0), none⟩], outs := [] }] }] }

/-- `internal_init` counts 4 tasks, all of them startup tasks; the startup loop `for (k = 3; k <= 0; k += -1)` creates none -/
theorem negstep_startup_creates_nothing :
    announcedNbTasks negstep 0 1 = 4 ∧ (space negstep 0).filter (isStartup negstep.globals negstep.classes[0]!) = [[3], [2], [1], [0]] ∧
    startupEnum negstep 0 = some [] := by decide

/-- `T(k)`, `k = 0 .. 0 .. -1`: one instance; the startup loop `for (k = 0; k <= 0; k += -1)` never terminates -/
def negstep0 : Program :=
  { negstep with classes := [{ negstep.classes[0]! with locals := [.range ⟨.const 0, .const 0, .const (-1)⟩] }] }

theorem negstep0_startup_diverges : space negstep0 0 = [[0]] ∧ startupEnum negstep0 0 = none := by decide

/-- a producer `P(i)`, `i = 0 .. 2`, sends to `T(i)` whose range is `2 .. 0 .. -1`: the consumer names its producer, but the
    successor iterator tests `i >= 2 && i <= 0` and drops every target -/
def negtarget : Program :=
  { globals := [],
    classes := [{ name := "P", locals := [.range ⟨.const 0, .const 2, .const 1⟩], isParam := [true], place := .var 0, prio := none,
                  flows := [{ access := .rw, ins := [⟨none, .coll (.var 0), none⟩],
                              outs := [⟨none, .task 1 0 [.one (.var 0)], none⟩] }] },
                { name := "T", locals := [.range ⟨.const 2, .const 0, .const (-1)⟩], isParam := [true], place := .var 0, prio := none,
                  flows := [{ access := .read, ins := [⟨none, .task 0 0 [.one (.var 0)], none⟩], outs := [] }] }] }

theorem negstep_target_dropped :
    (space negtarget 1).length = 3 ∧ (allInEdges negtarget).length = 3 ∧ allOutEdges negtarget = [] := by decide

theorem C01_startup_full_false : ¬ C01_startup_full := by
  intro h
  have := h negstep 0 negstep.classes[0]! rfl (by decide)
  revert this
  decide

/-! ### Non-vacuity -/

/-- positive constant and expression steps, bounds depending on outer locals, a derived local, a guarded CTL input -/
def example1 : Program :=
  { globals := [2],
    classes := [{ name := "T",
                  locals := [.range ⟨.const (-1), .glob 0, .const 1⟩,
                             .expr (.bin .add (.bin .mod (.bin .add (.var 0) (.const 8)) (.const 2)) (.const 1)),
                             .range ⟨.var 0, .bin .add (.var 0) (.const 4), .var 1⟩],
                  isParam := [true, false, true], place := .var 0, prio := none,
                  flows := [{ access := .ctl,
                              ins := [⟨some (.bin .gt (.var 2) (.var 0)), .task 0 0 [.one (.var 0), .one (.bin .sub (.var 2) (.var 1))], none⟩],
                              outs := [⟨some (.bin .le (.bin .add (.var 2) (.var 1)) (.bin .add (.var 0) (.const 4))),
                                        .task 0 0 [.one (.var 0), .one (.bin .add (.var 2) (.var 1))], none⟩] }] }] }

example : StepsPositive (example1.classes[0]!.sems example1.globals) [] := by decide
example : (space example1 0).length = 16 ∧ (startupEnum example1 0).map List.length = some 4 := by decide
example : WellFormed example1 = true := by decide
example : announcedNbTasks example1 1 3 = 3 := by decide

/-! ### Exactly once under every schedule (abstract runtime on the task graph of the program) -/
section runtime
open ParsecVerif.PtgRt ParsecVerif.Dataflow ParsecVerif.Runtime

variable {F : Nat → List (Option Nat) → Nat}

/-- the instantiation: the task graph of a well-formed program is a well-formed dataflow graph -/
theorem C01_graph_wf (p : Program) (cfg : Cfg) (h : WellFormed p = true) : WF (graphOf p cfg) id := graphOf_WF p cfg h

theorem nodeOf_getElem (p : Program) (i : Nat) (hi : i < (allInstances p).length) : nodeOf p (allInstances p)[i] = some i := by
  unfold nodeOf ixOf
  rw [List.idxOf?_eq_some_iff]
  refine ⟨hi, rfl, ?_⟩
  intro j hj heq
  have := (List.getElem_inj (h₀ := by omega) (h₁ := hi) (C01_instances_nodup p)).1 heq
  omega

/-- **Exactly once.**  In every maximal run (no transition enabled) of the abstract runtime on the task graph of a
    well-formed program — whatever the scheduler's choices, the number of workers and the AGAIN answers — every instance
    of the execution space has completed exactly once, and every event of the trace belongs to an instance of the space. -/
theorem C01_exactly_once (p : Program) (cfg : Cfg) (hwf : WellFormed p = true) (again : List Nat) (ts : List Tr)
    (hmax : ∀ t, enabled (run (graphOf p cfg) F again ts) t = false) :
    (∀ t ∈ allInstances p, ∃ j, nodeOf p t = some j ∧ (run (graphOf p cfg) F again ts).log.count (.end_ j) = 1) ∧
    (∀ ev ∈ (run (graphOf p cfg) F again ts).log, ∃ t ∈ allInstances p, nodeOf p t = some (evNode ev)) := by
  have hg := graphOf_WF p cfg hwf
  have hq := maximal_run_is_quiescent (F := F) hg again ts hmax
  constructor
  · intro t ht
    obtain ⟨j, hj⟩ := ixOf_of_mem ht
    exact ⟨j, hj, quiescent_all_once hg again ts hq j (ixOf_some hj).1⟩
  · intro ev hev
    have hlt : evNode ev < (allInstances p).length := log_nodes_lt (F := F) hg again ts ev hev
    exact ⟨(allInstances p)[evNode ev], List.getElem_mem hlt, nodeOf_getElem p _ hlt⟩

/-- at no moment of any run has an instance completed twice -/
theorem C01_never_twice (p : Program) (cfg : Cfg) (hwf : WellFormed p = true) (again : List Nat) (ts : List Tr) (j : Nat) :
    (run (graphOf p cfg) F again ts).log.count (.end_ j) ≤ 1 :=
  (completes_at_most_once (F := F) (graphOf_WF p cfg hwf) again ts j).1

/-- a run that is not complete can be extended: no deadlock -/
theorem C01_no_deadlock (p : Program) (cfg : Cfg) (hwf : WellFormed p = true) (again : List Nat) (ts : List Tr)
    (hq : ¬ quiescent (run (graphOf p cfg) F again ts)) : ∃ t, enabled (run (graphOf p cfg) F again ts) t = true :=
  deadlock_free (graphOf_WF p cfg hwf) again ts hq

/-- every enabled transition strictly decreases a natural measure: no run is infinite -/
theorem C01_terminates (p : Program) (cfg : Cfg) (hwf : WellFormed p = true) (again : List Nat) (ts : List Tr) (t : Tr)
    (hen : enabled (run (graphOf p cfg) F again ts) t = true) :
    mu (step (graphOf p cfg) F (run (graphOf p cfg) F again ts) t) < mu (run (graphOf p cfg) F again ts) :=
  step_decreases (graphOf_WF p cfg hwf) again ts t hen

/-- non-vacuity: `example1` (16 instances, a guarded CTL chain) is well formed; its graph has 12 edges -/
example : (graphOf example1 {}).n = 16 ∧ (graphOf example1 {}).E.length = 12 := by decide

end runtime

end ParsecVerif.C01
