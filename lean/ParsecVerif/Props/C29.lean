import ParsecVerif.Model.Future
import ParsecVerif.Proofs.Future
import ParsecVerif.Proofs.FutureDC
import ParsecVerif.Proofs.FutureDCMutex
import ParsecVerif.Base.Interleave
/-!
# C29 — futures complete once and deliver one value

All theorems are about `brun` / `drun`: the state reached by ANY schedule (list of thread ids, stutter steps
of blocked threads included) from the initial state of ANY number of threads with ANY operation lists.
-/
namespace ParsecVerif.C29
open ParsecVerif.Future ParsecVerif.FutureL

/-! ## Base future -/

def isWmb (th : BThread) : Bool := match th.pc with | .wmb _ => true | _ => false
def nWmb (s : BState) : Nat := s.thr.countP isWmb

/-- the operation a park point belongs to -/
def pcOp : BPc → Option BOp
  | .cas v => some (.set v) | .wmb v => some (.set v) | .dec v => some (.set v)
  | .spin => some .get | .rmb => some .get | .idle => none | .done => none

/-- per-thread part of the invariant; `A` = the operations that occur in the programs -/
structure BThOk (A : List BOp) (sh : BShared) (th : BThread) : Prop where
  todo : ∀ o ∈ th.todo, o ∈ A
  cas : ∀ v, th.pc = .cas v → .set v ∈ A
  wmb : ∀ v, th.pc = .wmb v → v = sh.data
  rmb : th.pc = .rmb → sh.compl = true
  get : ∀ v, (BOp.get, v) ∈ th.res → sh.compl = true ∧ v = sh.data
  rdy : (BOp.ready, 1) ∈ th.res → sh.compl = true
  sets : ∀ v r, (BOp.set v, r) ∈ th.res → sh.data ≠ 0
  prog : th.res.map (·.1) ++ th.todo = th.prog
  dn : th.pc = .done → th.todo = []
  hd : ∀ o, pcOp th.pc = some o → th.todo.head? = some o
  nodec : ∀ v, th.pc ≠ .dec v

structure BInv (A : List BOp) (s : BState) : Prop where
  shared : (s.sh.data = 0 ∧ s.sh.wins = 0 ∧ s.sh.cb = 0 ∧ s.sh.compl = false ∧ nWmb s = 0) ∨
           (s.sh.data ≠ 0 ∧ s.sh.wins = 1 ∧ s.sh.cb + nWmb s = 1 ∧ (s.sh.compl = true ↔ s.sh.cb = 1))
  issued : s.sh.data ≠ 0 → .set s.sh.data ∈ A
  thr : ∀ th ∈ s.thr, BThOk A s.sh th

/-- the shared state only grows: once complete, value and flag stay -/
def BExt (sh sh' : BShared) : Prop :=
  (sh.compl = true → sh'.compl = true ∧ sh'.data = sh.data) ∧ (sh.data ≠ 0 → sh'.data = sh.data)

theorem bthok_ext {A sh sh' th} (h : BThOk A sh th) (e : BExt sh sh') (hw : ∀ v, th.pc = .wmb v → v = sh'.data) :
    BThOk A sh' th := by
  refine ⟨h.todo, h.cas, hw, ?_, ?_, ?_, ?_, h.prog, h.dn, h.hd, h.nodec⟩
  · intro hp; exact (e.1 (h.rmb hp)).1
  · intro v hv
    obtain ⟨hc, hd⟩ := h.get v hv
    exact ⟨(e.1 hc).1, by rw [(e.1 hc).2]; exact hd⟩
  · intro hr; exact (e.1 (h.rdy hr)).1
  · intro v r hv
    have := h.sets v r hv
    rw [e.2 this]; exact this

theorem bfin_pc_ne (th : BThread) (op : BOp) (v : Nat) :
    (bfin th op v).pc = .done ∨ (bfin th op v).pc = .idle := by
  unfold bfin; cases th.todo.tail <;> simp

theorem bfin_not_wmb (th : BThread) (op : BOp) (v : Nat) : isWmb (bfin th op v) = false := by
  unfold isWmb; rcases bfin_pc_ne th op v with h | h <;> rw [h]

theorem bfin_done (th : BThread) (op : BOp) (v : Nat) (h : (bfin th op v).pc = .done) : (bfin th op v).todo = [] := by
  unfold bfin at *
  cases ht : th.todo.tail with
  | nil => rfl
  | cons a r => simp [ht] at h

/-- finishing operation `op` (the head of `todo`) with result `v` -/
theorem bthok_fin {A sh th} (op : BOp) (v : Nat) (h : BThOk A sh th) (hd : th.todo.head? = some op)
    (hget : op = .get → sh.compl = true ∧ v = sh.data) (hrdy : op = .ready → v = 1 → sh.compl = true)
    (hset : ∀ x, op = .set x → sh.data ≠ 0) : BThOk A sh (bfin th op v) := by
  have htodo : th.todo = op :: th.todo.tail := by
    cases ht : th.todo with
    | nil => simp [ht] at hd
    | cons a r => simp [ht] at hd; simp [hd]
  have hhd : ∀ o, pcOp (bfin th op v).pc = some o → (bfin th op v).todo.head? = some o := by
    intro o ho; rcases bfin_pc_ne th op v with e | e <;> rw [e] at ho <;> cases ho
  have hnd : ∀ x, (bfin th op v).pc ≠ .dec x := by
    intro x ho; rcases bfin_pc_ne th op v with e | e <;> rw [e] at ho <;> cases ho
  refine ⟨?_, ?_, ?_, ?_, ?_, ?_, ?_, ?_, bfin_done th op v, hhd, hnd⟩
  · intro o ho; exact h.todo o (List.mem_of_mem_tail ho)
  · intro x hx; rcases bfin_pc_ne th op v with e | e <;> rw [e] at hx <;> cases hx
  · intro x hx; rcases bfin_pc_ne th op v with e | e <;> rw [e] at hx <;> cases hx
  · intro hx; rcases bfin_pc_ne th op v with e | e <;> rw [e] at hx <;> cases hx
  · intro x hx
    simp only [bfin, List.mem_append, List.mem_singleton, Prod.mk.injEq] at hx
    rcases hx with hx | ⟨h1, h2⟩
    · exact h.get x hx
    · subst h2; exact hget h1.symm
  · intro hx
    simp only [bfin, List.mem_append, List.mem_singleton, Prod.mk.injEq] at hx
    rcases hx with hx | ⟨h1, h2⟩
    · exact h.rdy hx
    · exact hrdy h1.symm h2.symm
  · intro x r hx
    simp only [bfin, List.mem_append, List.mem_singleton, Prod.mk.injEq] at hx
    rcases hx with hx | ⟨h1, _⟩
    · exact h.sets x r hx
    · exact hset x h1.symm
  · have := h.prog
    rw [htodo] at this
    simp only [bfin, List.map_append, List.map_cons, List.map_nil, List.append_assoc, List.singleton_append]
    exact this

theorem binv_init (progs : List (List BOp)) (c : Int) : BInv progs.flatten (binit c progs) := by
  refine ⟨Or.inl ⟨rfl, rfl, rfl, rfl, ?_⟩, by intro h; exact absurd rfl h, ?_⟩
  · apply countP_eq_zero_of_all
    intro th hth
    simp only [binit, List.mem_map] at hth
    obtain ⟨p, _, rfl⟩ := hth
    rfl
  · intro th hth
    simp only [binit, List.mem_map] at hth
    obtain ⟨p, hp, rfl⟩ := hth
    refine ⟨?_, (by intro v h; cases h), (by intro v h; cases h), (by intro h; cases h), (by intro v h; cases h),
      (by intro h; cases h), (by intro v r h; cases h), (by simp), (by intro h; cases h), (by intro o h; cases h), (by intro v h; cases h)⟩
    intro o ho
    exact List.mem_flatten.2 ⟨p, hp, ho⟩


def BSharedOk (sh : BShared) (n : Nat) : Prop :=
  (sh.data = 0 ∧ sh.wins = 0 ∧ sh.cb = 0 ∧ sh.compl = false ∧ n = 0) ∨
  (sh.data ≠ 0 ∧ sh.wins = 1 ∧ sh.cb + n = 1 ∧ (sh.compl = true ↔ sh.cb = 1))

theorem nWmb_pos {s : BState} {th : BThread} (hm : th ∈ s.thr) (hw : isWmb th = true) : 0 < nWmb s :=
  List.countP_pos_iff.2 ⟨th, hm, hw⟩

/-- reassembling the invariant after thread `t` moved from `th` to `th'` and the shared part to `sh'` -/
theorem binv_bset {A : List BOp} {s : BState} {t : Nat} {th : BThread} (sh' : BShared) (th' : BThread) (b b' : Bool)
    (h : BInv A s) (hi : t < s.thr.length) (hx : s.thr[t] = th)
    (hb : isWmb th = b) (hb' : isWmb th' = b')
    (hext : BExt s.sh sh')
    (hshared : ∀ n, n + b.toNat = nWmb s + b'.toNat → BSharedOk sh' n)
    (hiss : sh'.data ≠ 0 → .set sh'.data ∈ A)
    (hth : BThOk A sh' th') : BInv A (bset s t sh' th') := by
  have hmove := countP_set_move isWmb s.thr t th' hi
  rw [hx, hb, hb'] at hmove
  refine ⟨hshared _ (by cases b <;> cases b' <;> simp at hmove ⊢ <;> exact hmove), hiss, ?_⟩
  intro o ho
  rcases List.mem_or_eq_of_mem_set ho with ho | ho
  · refine bthok_ext (h.thr o ho) hext ?_
    intro v hv
    have hpos : 0 < nWmb s := nWmb_pos ho (by simp [isWmb, hv])
    have hd : s.sh.data ≠ 0 := by
      rcases h.shared with ⟨_, _, _, _, h0⟩ | ⟨hd, _⟩
      · omega
      · exact hd
    show v = sh'.data
    rw [hext.2 hd]
    exact (h.thr o ho).wmb v hv
  · subst ho; exact hth

theorem bext_refl (sh : BShared) : BExt sh sh := ⟨fun h => ⟨h, rfl⟩, fun _ => rfl⟩

/-- the thread moves to another park point inside the same operation -/
theorem bthok_pc {A sh th} (pc' : BPc) (h : BThOk A sh th) (hcas : ∀ v, pc' = .cas v → .set v ∈ A)
    (hwmb : ∀ v, pc' = .wmb v → v = sh.data) (hrmb : pc' = .rmb → sh.compl = true) (hdn : pc' = .done → th.todo = [])
    (hhd : ∀ o, pcOp pc' = some o → th.todo.head? = some o) (hnd : ∀ v, pc' ≠ .dec v) :
    BThOk A sh { th with pc := pc' } :=
  ⟨h.todo, hcas, hwmb, hrmb, h.get, h.rdy, h.sets, h.prog, hdn, hhd, hnd⟩

theorem isWmb_pc (th : BThread) (pc' : BPc) (h : ∀ v, pc' ≠ .wmb v) : isWmb { th with pc := pc' } = false := by
  unfold isWmb
  cases pc' <;> simp_all

theorem shared_same {s : BState} (hsh : BSharedOk s.sh (nWmb s)) : ∀ n, n + false.toNat = nWmb s + false.toNat → BSharedOk s.sh n := by
  intro n hn; simp at hn; subst hn; exact hsh

theorem binv_step (A : List BOp) (hA : ∀ v, BOp.set v ∈ A → v ≠ 0) (s : BState) (t : Nat) (h : BInv A s) :
    BInv A (bstep false s t) := by
  unfold bstep
  cases hpc : s.thr[t]? with
  | none => exact h
  | some th =>
    obtain ⟨hi, hx⟩ := getElem_of_getElem? hpc
    have hm : th ∈ s.thr := hx ▸ List.getElem_mem hi
    have ht := h.thr th hm
    have hsh : BSharedOk s.sh (nWmb s) := h.shared
    simp only []
    cases hp : th.pc with
    | idle =>
      simp only []
      unfold bidle
      have hnw : isWmb th = false := by simp [isWmb, hp]
      split
      · next htd =>
        exact binv_bset _ _ false false h hi hx hnw (isWmb_pc _ .done (by intro v hv; cases hv)) (bext_refl _) (shared_same hsh) h.issued
          (bthok_pc .done ht (by intro v hv; cases hv) (by intro v hv; cases hv) (by intro hv; cases hv) (fun _ => htd) (by intro o ho; cases ho) (by intro v hv; cases hv))
      · next v rest htd =>
        simp only [Bool.false_eq_true, if_false]
        exact binv_bset _ _ false false h hi hx hnw (isWmb_pc _ (.cas v) (by intro v hv; cases hv)) (bext_refl _) (shared_same hsh) h.issued
          (bthok_pc (.cas v) ht (by intro x hx'; cases hx'; exact ht.todo _ (by simp [htd])) (by intro v hv; cases hv)
            (by intro hv; cases hv) (by intro hv; cases hv) (by intro o ho; cases ho; simp [htd]) (by intro v hv; cases hv))
      · next rest htd =>
        by_cases hc : s.sh.compl = true
        · rw [if_pos hc]
          exact binv_bset _ _ false false h hi hx hnw (isWmb_pc _ .rmb (by intro v hv; cases hv)) (bext_refl _) (shared_same hsh) h.issued
            (bthok_pc .rmb ht (by intro v hv; cases hv) (by intro v hv; cases hv) (fun _ => hc) (by intro hv; cases hv) (by intro o ho; cases ho; simp [htd]) (by intro v hv; cases hv))
        · rw [if_neg hc]
          exact binv_bset _ _ false false h hi hx hnw (isWmb_pc _ .spin (by intro v hv; cases hv)) (bext_refl _) (shared_same hsh) h.issued
            (bthok_pc .spin ht (by intro v hv; cases hv) (by intro v hv; cases hv) (by intro hv; cases hv) (by intro hv; cases hv) (by intro o ho; cases ho; simp [htd]) (by intro v hv; cases hv))
      · next rest htd =>
        refine binv_bset _ _ false false h hi hx hnw (bfin_not_wmb _ _ _) (bext_refl _) (shared_same hsh) h.issued ?_
        refine bthok_fin .ready _ ht (by simp [htd]) (by intro hh; cases hh) ?_ (by intro x hh; cases hh)
        intro _ hv
        by_cases hc : s.sh.compl = true
        · exact hc
        · simp [hc] at hv
    | cas v =>
      simp only []
      have hnw : isWmb th = false := by simp [isWmb, hp]
      have hvA : BOp.set v ∈ A := ht.cas v hp
      by_cases hd : s.sh.data = 0
      · rw [if_pos hd]
        have hv0 : v ≠ 0 := hA v hvA
        have hcf : s.sh.compl = false := by
          rcases hsh with ⟨_, _, _, hc', _⟩ | ⟨hd', _⟩
          · exact hc'
          · exact absurd hd hd'
        have hext : BExt s.sh { s.sh with data := v, wins := s.sh.wins + 1 } :=
          ⟨(by intro hc; rw [hc] at hcf; cases hcf), (by intro hd'; exact absurd hd hd')⟩
        refine binv_bset _ _ false true h hi hx hnw (by simp [isWmb]) hext ?_ (fun _ => hvA) ?_
        · intro n hn
          simp at hn
          rcases hsh with ⟨_, hw, hcb, hc, hn0⟩ | ⟨hd', _⟩
          · refine Or.inr ⟨hv0, by simp [hw], by simp [hcb]; omega, ?_⟩
            simp [hc, hcb]
          · exact absurd hd hd'
        · have ht' := bthok_ext ht hext (by intro x hx'; rw [hp] at hx'; cases hx')
          exact bthok_pc (.wmb v) ht' (by intro x hx'; cases hx') (by intro x hx'; cases hx'; rfl) (by intro hv; cases hv) (by intro hv; cases hv)
            (by intro o ho; cases ho; exact ht.hd _ (by rw [hp]; rfl)) (by intro v hv; cases hv)
      · rw [if_neg hd]
        refine binv_bset _ _ false false h hi hx hnw (bfin_not_wmb _ _ _) (bext_refl _) (shared_same hsh) h.issued ?_
        exact bthok_fin (.set v) 0 ht (ht.hd _ (by rw [hp]; rfl)) (by intro hh; cases hh) (by intro hh; cases hh) (fun _ _ => hd)
    | wmb v =>
      simp only []
      have hw : isWmb th = true := by simp [isWmb, hp]
      have hvd : v = s.sh.data := ht.wmb v hp
      have hpos := nWmb_pos hm hw
      have hd : s.sh.data ≠ 0 := by
        rcases hsh with ⟨_, _, _, _, h0⟩ | ⟨hd, _⟩
        · omega
        · exact hd
      have hext : BExt s.sh { s.sh with compl := true, cb := s.sh.cb + 1 } := ⟨fun _ => ⟨rfl, rfl⟩, fun _ => rfl⟩
      refine binv_bset _ _ true false h hi hx hw (bfin_not_wmb _ _ _) hext ?_ h.issued ?_
      · intro n hn
        simp at hn
        rcases hsh with ⟨hd', _⟩ | ⟨_, hwins, hcb, hc⟩
        · exact absurd hd' hd
        · refine Or.inr ⟨hd, hwins, ?_, ?_⟩
          · show s.sh.cb + 1 + n = 1
            omega
          · show true = true ↔ s.sh.cb + 1 = 1
            constructor
            · intro _; omega
            · intro _; rfl
      · have ht' := bthok_ext ht hext (by intro x hx'; exact ht.wmb x hx')
        exact bthok_fin (.set v) 1 ht' (ht.hd _ (by rw [hp]; rfl)) (by intro hh; cases hh) (by intro hh; cases hh) (fun _ _ => hd)
    | dec v => exact absurd hp (ht.nodec v)
    | spin =>
      simp only []
      have hnw : isWmb th = false := by simp [isWmb, hp]
      have hhd := ht.hd .get (by rw [hp]; rfl)
      by_cases hc : s.sh.compl = true
      · rw [if_pos hc]
        exact binv_bset _ _ false false h hi hx hnw (isWmb_pc _ .rmb (by intro v hv; cases hv)) (bext_refl _) (shared_same hsh) h.issued
          (bthok_pc .rmb ht (by intro v hv; cases hv) (by intro v hv; cases hv) (fun _ => hc) (by intro hv; cases hv) (by intro o ho; cases ho; exact hhd) (by intro v hv; cases hv))
      · rw [if_neg hc]
        exact binv_bset _ _ false false h hi hx hnw (isWmb_pc _ .spin (by intro v hv; cases hv)) (bext_refl _) (shared_same hsh) h.issued
          (bthok_pc .spin ht (by intro v hv; cases hv) (by intro v hv; cases hv) (by intro hv; cases hv) (by intro hv; cases hv) (by intro o ho; cases ho; exact hhd) (by intro v hv; cases hv))
    | rmb =>
      simp only []
      have hnw : isWmb th = false := by simp [isWmb, hp]
      refine binv_bset _ _ false false h hi hx hnw (bfin_not_wmb _ _ _) (bext_refl _) (shared_same hsh) h.issued ?_
      exact bthok_fin .get _ ht (ht.hd _ (by rw [hp]; rfl)) (fun _ => ⟨ht.rmb hp, rfl⟩) (by intro hh; cases hh) (by intro x hh; cases hh)
    | done => simpa using h


theorem binv_run (progs : List (List BOp)) (hv : ∀ p ∈ progs, ∀ v, BOp.set v ∈ p → v ≠ 0) (c : Int) (sched : List Nat) :
    BInv progs.flatten (brun false c progs sched) := by
  refine foldl_inv _ _ (binv_step _ ?_) sched _ (binv_init progs c)
  intro v hm
  obtain ⟨p, hp, hm⟩ := List.mem_flatten.1 hm
  exact hv p hp v hm

theorem bfin_prog (th : BThread) (op : BOp) (v : Nat) : (bfin th op v).prog = th.prog := rfl

theorem bstep_prog (k : Bool) (s : BState) (t : Nat) : (bstep k s t).thr.map (·.prog) = s.thr.map (·.prog) := by
  unfold bstep
  split
  · rfl
  · next th hth =>
    have key : ∀ (sh : BShared) (th' : BThread), th'.prog = th.prog → (bset s t sh th').thr.map (·.prog) = s.thr.map (·.prog) := by
      intro sh th' he
      exact map_set_same _ _ _ _ (by intro x hx; rw [hth] at hx; cases hx; exact he)
    split
    · unfold bidle
      split <;> exact key _ _ rfl
    · split <;> exact key _ _ rfl
    · exact key _ _ rfl
    · split <;> exact key _ _ rfl
    · exact key _ _ rfl
    · exact key _ _ rfl
    · rfl

theorem brun_prog (k : Bool) (c : Int) (progs : List (List BOp)) (sched : List Nat) :
    (brun k c progs sched).thr.map (·.prog) = progs := by
  refine foldl_inv (fun s => s.thr.map (·.prog) = progs) _ (fun s t h => (bstep_prog k s t).trans h) sched _ ?_
  simp [binit, Function.comp_def]

/-- **C29 (base future).**  For every program list whose set values are non-NULL, after ANY schedule:
    at most one CAS won, and exactly one as soon as the future holds a value; the callback ran at most once and
    exactly once iff the future is ready; a ready future holds a value; the value is the argument of an issued set;
    every finished `get` returned while the future was ready and returned the (final) value; a positive `is_ready`
    was answered only on a ready future. -/
theorem C29_base_once (progs : List (List BOp)) (hv : ∀ p ∈ progs, ∀ v, BOp.set v ∈ p → v ≠ 0) (c : Int) (sched : List Nat) :
    (brun false c progs sched).sh.wins ≤ 1 ∧ (brun false c progs sched).sh.cb ≤ 1 ∧
    ((brun false c progs sched).sh.compl = true ↔ (brun false c progs sched).sh.cb = 1) ∧
    ((brun false c progs sched).sh.wins = 1 ↔ (brun false c progs sched).sh.data ≠ 0) ∧
    ((brun false c progs sched).sh.compl = true → (brun false c progs sched).sh.data ≠ 0) ∧
    ((brun false c progs sched).sh.data ≠ 0 → ∃ p ∈ progs, BOp.set (brun false c progs sched).sh.data ∈ p) ∧
    ∀ th ∈ (brun false c progs sched).thr,
      (∀ v, (BOp.get, v) ∈ th.res → (brun false c progs sched).sh.compl = true ∧ v = (brun false c progs sched).sh.data ∧ v ≠ 0) ∧
      ((BOp.ready, 1) ∈ th.res → (brun false c progs sched).sh.compl = true) := by
  have h := binv_run progs hv c sched
  generalize brun false c progs sched = s at h
  have hcd : s.sh.compl = true → s.sh.data ≠ 0 := by
    intro hc
    rcases h.shared with ⟨_, _, _, hc', _⟩ | ⟨hd, _⟩
    · rw [hc] at hc'; cases hc'
    · exact hd
  refine ⟨?_, ?_, ?_, ?_, hcd, ?_, ?_⟩
  · rcases h.shared with ⟨_, hw, _⟩ | ⟨_, hw, _⟩ <;> omega
  · rcases h.shared with ⟨_, _, hcb, _⟩ | ⟨_, _, hcb, _⟩ <;> omega
  · rcases h.shared with ⟨_, _, hcb, hc, _⟩ | ⟨_, _, _, hc⟩
    · simp [hcb, hc]
    · exact hc
  · rcases h.shared with ⟨hd, hw, _⟩ | ⟨hd, hw, _⟩
    · simp [hd, hw]
    · simp [hd, hw]
  · intro hd
    obtain ⟨p, hp, hm⟩ := List.mem_flatten.1 (h.issued hd)
    exact ⟨p, hp, hm⟩
  · intro th hth
    refine ⟨?_, (h.thr th hth).rdy⟩
    intro v hm
    obtain ⟨hc, hvd⟩ := (h.thr th hth).get v hm
    exact ⟨hc, hvd, by rw [hvd]; exact hcd hc⟩

/-- When every thread has finished and at least one set was issued, the future is ready, one CAS won and the callback ran once. -/
theorem C29_base_all_done (progs : List (List BOp)) (hv : ∀ p ∈ progs, ∀ v, BOp.set v ∈ p → v ≠ 0) (c : Int) (sched : List Nat)
    (hdone : ∀ th ∈ (brun false c progs sched).thr, th.pc = .done) (hset : ∃ p ∈ progs, ∃ v, BOp.set v ∈ p) :
    (brun false c progs sched).sh.compl = true ∧ (brun false c progs sched).sh.cb = 1 ∧ (brun false c progs sched).sh.wins = 1 := by
  have h := binv_run progs hv c sched
  have hpr := brun_prog false c progs sched
  generalize brun false c progs sched = s at h hpr hdone
  obtain ⟨p, hp, v, hm⟩ := hset
  rw [← hpr] at hp
  obtain ⟨th, hth, rfl⟩ := List.mem_map.1 hp
  have ht := h.thr th hth
  have htd := ht.dn (hdone th hth)
  have hprog := ht.prog
  rw [htd, List.append_nil] at hprog
  rw [← hprog] at hm
  obtain ⟨⟨o, r⟩, hor, ho⟩ := List.mem_map.1 hm
  simp only at ho
  subst ho
  have hd := ht.sets v r hor
  have hn0 : nWmb s = 0 := by
    apply countP_eq_zero_of_all
    intro x hx
    simp [isWmb, hdone x hx]
  rcases h.shared with ⟨hd', _⟩ | ⟨_, hw, hcb, hc⟩
  · exact absurd hd' hd
  · rw [hn0] at hcb
    exact ⟨hc.2 (by omega), by omega, hw⟩

/-- The non-NULL hypothesis is needed: two `set(NULL)` both win the CAS and the callback runs twice. -/
theorem C29_base_null_needs_precondition :
    (brun false 0 [[.set 0], [.set 0]] [0, 0, 0, 1, 1, 1]).sh.cb = 2 ∧ (brun false 0 [[.set 0], [.set 0]] [0, 0, 0, 1, 1, 1]).sh.wins = 2 := by
  decide

/-- non-vacuity: two setters and a reader; the reader gets the winner's value -/
example : (brun false 0 [[.set 1], [.set 2], [.get]] [1, 2, 0, 1, 0, 1, 2, 2]).thr.map (·.res) =
    [[(.set 1, 0)], [(.set 2, 1)], [(.get, 2)]] := by decide


/-! ## Countable future -/

def isSetRes (p : BOp × Nat) : Bool := match p.1 with | .set _ => true | _ => false
/-- number of finished `set` operations of a thread -/
def nSetRes (th : BThread) : Nat := th.res.countP isSetRes
def finishedSets (s : BState) : Nat := (s.thr.map nSetRes).sum

structure KThOk (sh : BShared) (th : BThread) : Prop where
  rmb : th.pc = .rmb → sh.compl = true
  get : ∀ v, (BOp.get, v) ∈ th.res → sh.compl = true ∧ v = 0
  rdy : (BOp.ready, 1) ∈ th.res → sh.compl = true
  nocas : ∀ v, th.pc ≠ .cas v
  nowmb : ∀ v, th.pc ≠ .wmb v

structure KInv (c : Int) (s : BState) : Prop where
  cnt : s.sh.count = c - (s.sh.ndec : Int)
  data0 : s.sh.data = 0
  pos : 1 ≤ c → ((s.sh.compl = true ↔ c ≤ (s.sh.ndec : Int)) ∧
                 ((c ≤ (s.sh.ndec : Int) ∧ s.sh.cb = 1) ∨ ((s.sh.ndec : Int) < c ∧ s.sh.cb = 0)))
  nonpos : c ≤ 0 → s.sh.compl = false ∧ s.sh.cb = 0
  ndec : s.sh.ndec = finishedSets s
  thr : ∀ th ∈ s.thr, KThOk s.sh th

theorem kthok_ext {sh sh' th} (h : KThOk sh th) (e : sh.compl = true → sh'.compl = true) : KThOk sh' th :=
  ⟨fun hp => e (h.rmb hp), fun v hv => ⟨e (h.get v hv).1, (h.get v hv).2⟩, fun hr => e (h.rdy hr), h.nocas, h.nowmb⟩

theorem kthok_pc {sh th} (pc' : BPc) (h : KThOk sh th) (hrmb : pc' = .rmb → sh.compl = true)
    (hc : ∀ v, pc' ≠ .cas v) (hw : ∀ v, pc' ≠ .wmb v) : KThOk sh { th with pc := pc' } :=
  ⟨hrmb, h.get, h.rdy, hc, hw⟩

theorem kthok_fin {sh th} (op : BOp) (v : Nat) (h : KThOk sh th)
    (hget : op = .get → sh.compl = true ∧ v = 0) (hrdy : op = .ready → v = 1 → sh.compl = true) : KThOk sh (bfin th op v) := by
  refine ⟨?_, ?_, ?_, ?_, ?_⟩
  · intro hx; rcases bfin_pc_ne th op v with e | e <;> rw [e] at hx <;> cases hx
  · intro x hx
    simp only [bfin, List.mem_append, List.mem_singleton, Prod.mk.injEq] at hx
    rcases hx with hx | ⟨h1, h2⟩
    · exact h.get x hx
    · subst h2; exact hget h1.symm
  · intro hx
    simp only [bfin, List.mem_append, List.mem_singleton, Prod.mk.injEq] at hx
    rcases hx with hx | ⟨h1, h2⟩
    · exact h.rdy hx
    · exact hrdy h1.symm h2.symm
  · intro x hx; rcases bfin_pc_ne th op v with e | e <;> rw [e] at hx <;> cases hx
  · intro x hx; rcases bfin_pc_ne th op v with e | e <;> rw [e] at hx <;> cases hx

theorem nSetRes_pc (th : BThread) (pc' : BPc) : nSetRes { th with pc := pc' } = nSetRes th := rfl

theorem nSetRes_fin (th : BThread) (op : BOp) (v : Nat) :
    nSetRes (bfin th op v) = nSetRes th + (if isSetRes (op, v) then 1 else 0) := by
  simp [nSetRes, bfin, List.countP_append, List.countP_cons]

theorem finishedSets_set (s : BState) (t : Nat) (sh : BShared) (th th' : BThread) (hi : t < s.thr.length) (hx : s.thr[t] = th) :
    finishedSets (bset s t sh th') + nSetRes th = finishedSets s + nSetRes th' := by
  unfold finishedSets bset
  simp only [List.map_set]
  have := Interleave.sum_set (s.thr.map nSetRes) t (nSetRes th') (by simpa using hi)
  simpa [hx] using this

/-- reassembling the countable invariant -/
theorem kinv_bset {c : Int} {s : BState} {t : Nat} {th : BThread} (sh' : BShared) (th' : BThread)
    (h : KInv c s) (hi : t < s.thr.length) (hx : s.thr[t] = th)
    (hmono : s.sh.compl = true → sh'.compl = true)
    (hcnt : sh'.count = c - (sh'.ndec : Int)) (hdata : sh'.data = 0)
    (hpos : 1 ≤ c → ((sh'.compl = true ↔ c ≤ (sh'.ndec : Int)) ∧
                 ((c ≤ (sh'.ndec : Int) ∧ sh'.cb = 1) ∨ ((sh'.ndec : Int) < c ∧ sh'.cb = 0))))
    (hnonpos : c ≤ 0 → sh'.compl = false ∧ sh'.cb = 0)
    (hnd : sh'.ndec + nSetRes th = s.sh.ndec + nSetRes th')
    (hth : KThOk sh' th') : KInv c (bset s t sh' th') := by
  refine ⟨hcnt, hdata, hpos, hnonpos, ?_, ?_⟩
  · have := finishedSets_set s t sh' th th' hi hx
    have h2 := h.ndec
    show sh'.ndec = finishedSets (bset s t sh' th')
    omega
  · intro o ho
    rcases List.mem_or_eq_of_mem_set ho with ho | ho
    · exact kthok_ext (h.thr o ho) hmono
    · subst ho; exact hth

theorem kinv_same {c : Int} {s : BState} {t : Nat} {th : BThread} (th' : BThread)
    (h : KInv c s) (hi : t < s.thr.length) (hx : s.thr[t] = th) (hn : nSetRes th' = nSetRes th)
    (hth : KThOk s.sh th') : KInv c (bset s t s.sh th') :=
  kinv_bset s.sh th' h hi hx id h.cnt h.data0 h.pos h.nonpos (by omega) hth

theorem kinv_step (c : Int) (s : BState) (t : Nat) (h : KInv c s) : KInv c (bstep true s t) := by
  unfold bstep
  cases hpc : s.thr[t]? with
  | none => exact h
  | some th =>
    obtain ⟨hi, hx⟩ := getElem_of_getElem? hpc
    have hm : th ∈ s.thr := hx ▸ List.getElem_mem hi
    have ht := h.thr th hm
    simp only []
    cases hp : th.pc with
    | idle =>
      simp only []
      unfold bidle
      split
      · exact kinv_same _ h hi hx rfl (kthok_pc .done ht (by intro hv; cases hv) (by intro v hv; cases hv) (by intro v hv; cases hv))
      · next v rest htd =>
        simp only [if_true]
        exact kinv_same _ h hi hx rfl (kthok_pc (.dec v) ht (by intro hv; cases hv) (by intro v hv; cases hv) (by intro v hv; cases hv))
      · by_cases hc : s.sh.compl = true
        · rw [if_pos hc]
          exact kinv_same _ h hi hx rfl (kthok_pc .rmb ht (fun _ => hc) (by intro v hv; cases hv) (by intro v hv; cases hv))
        · rw [if_neg hc]
          exact kinv_same _ h hi hx rfl (kthok_pc .spin ht (by intro hv; cases hv) (by intro v hv; cases hv) (by intro v hv; cases hv))
      · refine kinv_same _ h hi hx (by rw [nSetRes_fin]; simp [isSetRes]) ?_
        refine kthok_fin .ready _ ht (by intro hh; cases hh) ?_
        intro _ hv
        by_cases hc : s.sh.compl = true
        · exact hc
        · simp [hc] at hv
    | cas v => exact absurd hp (ht.nocas v)
    | wmb v => exact absurd hp (ht.nowmb v)
    | dec v =>
      simp only []
      have hcnt := h.cnt
      by_cases h0 : s.sh.count - 1 = 0
      · rw [if_pos h0]
        have hc1 : 1 ≤ c := by omega
        obtain ⟨hcompl, hcb⟩ := h.pos hc1
        refine kinv_bset _ _ h hi hx (fun _ => rfl) ?_ h.data0 ?_ (by intro hc; omega) ?_ ?_
        · show s.sh.count - 1 = c - ((s.sh.ndec + 1 : Nat) : Int)
          omega
        · intro _
          refine ⟨⟨fun _ => ?_, fun _ => rfl⟩, Or.inl ⟨?_, ?_⟩⟩
          · show c ≤ ((s.sh.ndec + 1 : Nat) : Int)
            omega
          · show c ≤ ((s.sh.ndec + 1 : Nat) : Int)
            omega
          · show s.sh.cb + 1 = 1
            rcases hcb with ⟨hle, _⟩ | ⟨_, hcb0⟩
            · omega
            · omega
        · show s.sh.ndec + 1 + nSetRes th = s.sh.ndec + nSetRes (bfin th (.set v) 1)
          rw [nSetRes_fin]; simp [isSetRes]; omega
        · exact kthok_fin (.set v) 1 (kthok_ext ht (fun _ => rfl)) (by intro hh; cases hh) (by intro hh; cases hh)
      · rw [if_neg h0]
        refine kinv_bset _ _ h hi hx id ?_ h.data0 ?_ ?_ ?_ ?_
        · show s.sh.count - 1 = c - ((s.sh.ndec + 1 : Nat) : Int)
          omega
        · intro hc1
          obtain ⟨hcompl, hcb⟩ := h.pos hc1
          refine ⟨⟨fun hc => ?_, fun hle => ?_⟩, ?_⟩
          · show c ≤ ((s.sh.ndec + 1 : Nat) : Int)
            have := hcompl.1 hc
            omega
          · apply hcompl.2
            have : c ≤ ((s.sh.ndec + 1 : Nat) : Int) := hle
            omega
          · rcases hcb with ⟨hle, hcb1⟩ | ⟨hlt, hcb0⟩
            · refine Or.inl ⟨?_, hcb1⟩
              show c ≤ ((s.sh.ndec + 1 : Nat) : Int)
              omega
            · refine Or.inr ⟨?_, hcb0⟩
              show ((s.sh.ndec + 1 : Nat) : Int) < c
              omega
        · exact h.nonpos
        · show s.sh.ndec + 1 + nSetRes th = s.sh.ndec + nSetRes (bfin th (.set v) 0)
          rw [nSetRes_fin]; simp [isSetRes]; omega
        · exact kthok_fin (.set v) 0 (kthok_ext ht id) (by intro hh; cases hh) (by intro hh; cases hh)
    | spin =>
      simp only []
      by_cases hc : s.sh.compl = true
      · rw [if_pos hc]
        exact kinv_same _ h hi hx rfl (kthok_pc .rmb ht (fun _ => hc) (by intro v hv; cases hv) (by intro v hv; cases hv))
      · rw [if_neg hc]
        exact kinv_same _ h hi hx rfl (kthok_pc .spin ht (by intro hv; cases hv) (by intro v hv; cases hv) (by intro v hv; cases hv))
    | rmb =>
      simp only []
      refine kinv_same _ h hi hx (by rw [nSetRes_fin]; simp [isSetRes]) ?_
      exact kthok_fin .get _ ht (fun _ => ⟨ht.rmb hp, h.data0⟩) (by intro hh; cases hh)
    | done => simpa using h

theorem kinv_init (c : Int) (progs : List (List BOp)) : KInv c (binit c progs) := by
  refine ⟨by simp [binit], rfl, ?_, ?_, ?_, ?_⟩
  · intro hc
    refine ⟨⟨(by intro hh; cases hh), ?_⟩, Or.inr ⟨?_, rfl⟩⟩
    · intro hle; simp [binit] at hle; omega
    · simp [binit]; omega
  · intro _; exact ⟨rfl, rfl⟩
  · show 0 = finishedSets (binit c progs)
    simp only [finishedSets, binit, List.map_map]
    induction progs with
    | nil => rfl
    | cons p r ih => simp [List.map_cons, List.sum_cons, nSetRes] at ih ⊢; exact ih
  · intro th hth
    simp only [binit, List.mem_map] at hth
    obtain ⟨p, _, rfl⟩ := hth
    exact ⟨(by intro hh; cases hh), (by intro v hh; cases hh), (by intro hh; cases hh), (by intro v hh; cases hh), (by intro v hh; cases hh)⟩

/-- **C29 (countable future).**  For a count `c ≥ 1`, after ANY schedule: the future is ready exactly when at least `c` `set`
    operations have executed (their fetch-dec), the callback ran exactly once if ready and never before, the count word is
    `c − #sets`, and every finished `get` returned after readiness (with the NULL the countable future tracks). -/
theorem C29_count (c : Int) (hc : 1 ≤ c) (progs : List (List BOp)) (sched : List Nat) :
    ((brun true c progs sched).sh.compl = true ↔ c ≤ (finishedSets (brun true c progs sched) : Int)) ∧
    ((brun true c progs sched).sh.cb = if c ≤ (finishedSets (brun true c progs sched) : Int) then 1 else 0) ∧
    (brun true c progs sched).sh.count = c - (finishedSets (brun true c progs sched) : Int) ∧
    ∀ th ∈ (brun true c progs sched).thr,
      (∀ v, (BOp.get, v) ∈ th.res → (brun true c progs sched).sh.compl = true ∧ v = 0) ∧
      ((BOp.ready, 1) ∈ th.res → (brun true c progs sched).sh.compl = true) := by
  have h : KInv c (brun true c progs sched) := foldl_inv _ _ (kinv_step c) sched _ (kinv_init c progs)
  generalize brun true c progs sched = s at h
  obtain ⟨hcompl, hcb⟩ := h.pos hc
  rw [← h.ndec]
  refine ⟨hcompl, ?_, h.cnt, fun th hth => ⟨(h.thr th hth).get, (h.thr th hth).rdy⟩⟩
  rcases hcb with ⟨hle, h1⟩ | ⟨hlt, h0⟩
  · rw [if_pos hle]; exact h1
  · rw [if_neg (by omega)]; exact h0

/-- A countable future initialised with a count `≤ 0` never becomes ready and never runs its callback. -/
theorem C29_count_nonpositive (c : Int) (hc : c ≤ 0) (progs : List (List BOp)) (sched : List Nat) :
    (brun true c progs sched).sh.compl = false ∧ (brun true c progs sched).sh.cb = 0 := by
  have h : KInv c (brun true c progs sched) := foldl_inv _ _ (kinv_step c) sched _ (kinv_init c progs)
  exact h.nonpos hc

/-- non-vacuity: count 2, three setters; ready after the second fetch-dec, callback once -/
example : (brun true 2 [[.set 0], [.set 0, .get], [.set 0]] [0, 1, 0]).sh.compl = false ∧
    (brun true 2 [[.set 0], [.set 0, .get], [.set 0]] [0, 1, 0, 1, 2, 2, 1, 1]).sh.cb = 1 ∧
    finishedSets (brun true 2 [[.set 0], [.set 0, .get], [.set 0]] [0, 1, 0, 1, 2, 2, 1, 1]) = 3 := by decide


/-! ## Data-copy (reshape) future

`cfg.cls` is ANY class function (the match callback is `cls a = cls b`), `cfg.async` ANY choice of which shapes are
fulfilled by a deferred `set`; `b` the base future's shape; `pre` whether its creator completed it before sharing. -/
open ParsecVerif.FutureDC

/-- **C29 (trigger once).**  After ANY schedule, for the base future and every nested future: the fulfilment callback ran
    at most once, and exactly once iff the future is TRIGGERED. -/
theorem C29_trigger_once (cfg : Cfg) (b : Nat) (pre : Bool) (progs : List (List DOp)) (sched : List Nat) :
    ∀ fu ∈ (drun cfg b pre progs sched).futs, fu.cb ≤ 1 ∧ (fu.cb = 1 ↔ fu.trig = true) := by
  intro fu hfu
  have h := ((dinv_run cfg b pre progs sched).futs fu hfu).1
  cases ht : fu.trig <;> simp [ht] at h ⊢ <;> omega

/-- **C29 (nested futures).**  After ANY schedule the shape classes of the base future and of all nested futures are
    pairwise distinct: at most one nested future per shape class, and none that matches the base future. -/
theorem C29_nested_distinct (cfg : Cfg) (b : Nat) (pre : Bool) (progs : List (List DOp)) (sched : List Nat) :
    (((drun cfg b pre progs sched).futs.map (·.shape)).map cfg.cls).Nodup ∧
    ∀ (i j : Nat) (fi fj : Fut), (drun cfg b pre progs sched).futs[i]? = some fi → (drun cfg b pre progs sched).futs[j]? = some fj →
      cfg.cls fi.shape = cfg.cls fj.shape → i = j := by
  have h := (dinv_run cfg b pre progs sched).nodup
  refine ⟨h, ?_⟩
  intro i j fi fj hi hj hc
  refine nodup_getElem?_inj _ h i j (cfg.cls fi.shape) ?_ ?_
  · simp [shapes, hi]
  · simp [shapes, hj, hc]

/-- class of the future that serves request `r` (NULL spec: the base future) -/
def reqClass (cfg : Cfg) (s : DState) (r : Nat) : Nat := if r = 0 then cfg.cls (baseShape s) else cfg.cls r

/-- **C29 (values).**  After ANY schedule every finished `get_or_trigger(r)` returned NULL or the value of the first (only)
    fulfilment of a future of `r`'s class (of the base future for a NULL spec). -/
theorem C29_dc_values (cfg : Cfg) (b : Nat) (pre : Bool) (progs : List (List DOp)) (sched : List Nat) :
    ∀ th ∈ (drun cfg b pre progs sched).thr, ∀ r v, (DOp.trig r, v) ∈ th.res →
      v = 0 ∨ ∃ f fu, (drun cfg b pre progs sched).futs[f]? = some fu ∧ v = valOf 1 fu.shape ∧
        cfg.cls fu.shape = reqClass cfg (drun cfg b pre progs sched) r ∧ (r = 0 → f = 0) := by
  have h := dinv_run cfg b pre progs sched
  generalize drun cfg b pre progs sched = s at h
  intro th hth r v hm
  rcases (h.thr th hth).2 r v hm with h0 | ⟨f, x, hx, hv, hr0, hr1⟩
  · exact Or.inl h0
  · right
    simp only [shapes, List.getElem?_map, Option.map_eq_some_iff] at hx
    obtain ⟨fu, hfu, rfl⟩ := hx
    refine ⟨f, fu, hfu, hv, ?_, hr0⟩
    unfold reqClass
    by_cases hr : r = 0
    · rw [if_pos hr]
      have hf0 := hr0 hr
      subst hf0
      unfold baseShape
      rw [hfu]
    · rw [if_neg hr]; exact hr1 hr

/-- **C29 (one value per class).**  After ANY schedule any two non-NULL answers to requests of the same class are equal:
    every reader of a shape class gets the same value. -/
theorem C29_dc_one_value_per_class (cfg : Cfg) (b : Nat) (pre : Bool) (progs : List (List DOp)) (sched : List Nat) :
    ∀ th1 ∈ (drun cfg b pre progs sched).thr, ∀ th2 ∈ (drun cfg b pre progs sched).thr, ∀ r1 v1 r2 v2,
      (DOp.trig r1, v1) ∈ th1.res → (DOp.trig r2, v2) ∈ th2.res → v1 ≠ 0 → v2 ≠ 0 →
      reqClass cfg (drun cfg b pre progs sched) r1 = reqClass cfg (drun cfg b pre progs sched) r2 → v1 = v2 := by
  intro th1 h1 th2 h2 r1 v1 r2 v2 hm1 hm2 hv1 hv2 hc
  rcases C29_dc_values cfg b pre progs sched th1 h1 r1 v1 hm1 with h0 | ⟨f1, fu1, hf1, hval1, hc1, _⟩
  · exact absurd h0 hv1
  rcases C29_dc_values cfg b pre progs sched th2 h2 r2 v2 hm2 with h0 | ⟨f2, fu2, hf2, hval2, hc2, _⟩
  · exact absurd h0 hv2
  have hff := (C29_nested_distinct cfg b pre progs sched).2 f1 f2 fu1 fu2 hf1 hf2 (by rw [hc1, hc2, hc])
  subst hff
  rw [hf1] at hf2
  cases hf2
  rw [hval1, hval2]

/-- **C29 (locks).**  After ANY schedule every future lock is held by at most one thread, and by exactly one iff it is taken;
    for `f = 0` the holders are the threads scanning the nested list or creating a nested future (and those inside the base
    future's own trigger section): the list is only read and extended under the base lock. -/
theorem C29_parent_lock_mutex (cfg : Cfg) (b : Nat) (pre : Bool) (progs : List (List DOp)) (sched : List Nat) (f : Nat) :
    nHold (drun cfg b pre progs sched) f ≤ 1 ∧
    (nHold (drun cfg b pre progs sched) f = 1 ↔ lockedOf (drun cfg b pre progs sched) f = true) := by
  have h := (dminv_run cfg b pre progs sched).2 f
  by_cases hl : lockedOf (drun cfg b pre progs sched) f = true
  · rw [if_pos hl] at h; simp [h, hl]
  · rw [if_neg hl] at h; simp [h, hl]

/-- non-vacuity: base shape 1, classes mod 4, synchronous fulfilment; two threads ask for shape 2 and one for shape 6
    (same class): one nested future, triggered once, all three get its value -/
example : ((drun ⟨fun x => x % 4, fun _ => false⟩ 1 false [[.trig 2], [.trig 6], [.trig 2, .trig 0]]
      [0, 1, 2, 0, 0, 0, 0, 1, 1, 2, 2, 2, 2, 2]).futs.map fun fu => (fu.shape, fu.cb, fu.data)) = [(1, 1, 101), (2, 1, 102)] ∧
    ((drun ⟨fun x => x % 4, fun _ => false⟩ 1 false [[.trig 2], [.trig 6], [.trig 2, .trig 0]]
      [0, 1, 2, 0, 0, 0, 0, 1, 1, 2, 2, 2, 2, 2]).thr.map (·.res)) =
      [[(.trig 2, 102)], [(.trig 6, 102)], [(.trig 2, 102), (.trig 0, 101)]] := by decide


/-- non-vacuity of the lock theorem: a thread parked inside the scan holds the base lock -/
example : nHold (drun ⟨fun x => x % 4, fun _ => true⟩ 1 false [[.trig 2], [.trig 3]] [0, 0, 0, 0, 0, 1, 1, 1]) 0 = 1 ∧
    lockedOf (drun ⟨fun x => x % 4, fun _ => true⟩ 1 false [[.trig 2], [.trig 3]] [0, 0, 0, 0, 0, 1, 1, 1]) 0 = true := by decide

end ParsecVerif.C29
