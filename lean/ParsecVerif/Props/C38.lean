/-
  C38 — runtime (MCA) parameters resolve by documented precedence.

  "The effective value of a runtime (MCA) parameter is taken from, in order of precedence, an explicit
   override, the --mca command-line option or the PARSEC_MCA_ environment variable (including
   synonyms), a parameter file, and finally the default; repeated --mca options for one parameter
   are joined with commas."

  The laws are stated outright about `resolve` (the decision logic of `param_lookup`), for every
  parameter, environment, file-value list and $HOME; `lookup_spec` ties the stateful API call to
  `resolve`; the command-line theorems are about every list of option instances / every argv.
-/
import ParsecVerif.Model.McaParam
import ParsecVerif.Proofs.McaParam

namespace ParsecVerif.C38
open ParsecVerif.McaParam

/-! ## the precedence laws -/

/-- Law 1: an explicit override (parsec_mca_param_set_*) wins over environment, files and default. -/
theorem override_wins (p : Param) (env : Env) (fvs : List FV) (home : Option String) (v : Val)
    (hro : p.readOnly = false) (ho : p.override = some v) :
    resolve p env fvs home = ⟨.override, post home v, none, false⟩ := by
  simp [resolve, hro, ho]

/-- Law 2: without override, the environment wins over file values and the default, whatever they are. -/
theorem env_over_file (p : Param) (env : Env) (fvs : List FV) (home : Option String) (s : String)
    (hro : p.readOnly = false) (ho : p.override = none)
    (he : envFirst env (p.name :: p.syns) = some s) :
    resolve p env fvs home = ⟨.env, post home (parseVal p.ty (some s)), none, false⟩ := by
  simp [resolve, hro, ho, lookupEnv, he]

/-- Law 3: among the environment names the first one that is set wins, in the order primary name,
    then synonyms in registration order. -/
theorem synonym_order (env : Env) (pre : List String) (n : String) (rest : List String) (s : String)
    (hpre : ∀ m ∈ pre, getenv env m = none) (hn : getenv env n = some s) :
    envFirst env (pre ++ n :: rest) = some s := by
  induction pre with
  | nil => simp [envFirst, hn]
  | cons m t ih =>
    have hm : getenv env m = none := hpre m (List.mem_cons_self)
    rw [List.cons_append, envFirst]
    simp only [hm]
    exact ih (fun x hx => hpre x (List.mem_cons_of_mem _ hx))

/-- no name set ⇒ the environment contributes nothing -/
theorem envFirst_none (env : Env) (names : List String) (h : ∀ m ∈ names, getenv env m = none) :
    envFirst env names = none := by
  induction names with
  | nil => rfl
  | cons m t ih =>
    rw [envFirst]
    simp only [h m (List.mem_cons_self)]
    exact ih (fun x hx => h x (List.mem_cons_of_mem _ hx))

/-- Law 4: without override and environment, a file value wins over the default: the value cached
    by an earlier lookup if there is one, otherwise the first entry of the file-value list that
    carries the primary name or a synonym. -/
theorem file_over_default (p : Param) (env : Env) (fvs : List FV) (home : Option String)
    (hro : p.readOnly = false) (ho : p.override = none)
    (he : envFirst env (p.name :: p.syns) = none) :
    (∀ v, p.fileVal = some v → resolve p env fvs home = ⟨.file, post home v, p.srcFile, false⟩) ∧
    (p.fileVal = none → ∀ fv, fvFind p fvs = some fv →
      resolve p env fvs home = ⟨.file, post home (parseVal p.ty fv.value), some fv.file, false⟩) := by
  constructor
  · intro v hv
    simp [resolve, hro, ho, lookupEnv, he, lookupFileVal, hv]
  · intro hv fv hf
    simp [resolve, hro, ho, lookupEnv, he, lookupFileVal, hv, hf]

/-- Law 5: the default is used exactly when nothing else is present. -/
theorem default_last (p : Param) (env : Env) (fvs : List FV) (home : Option String)
    (ho : p.override = none) (he : envFirst env (p.name :: p.syns) = none)
    (hc : p.fileVal = none) (hf : fvFind p fvs = none) :
    resolve p env fvs home = ⟨.default, post home p.dflt, none, false⟩ := by
  cases hro : p.readOnly <;> simp [resolve, hro, ho, lookupEnv, he, lookupFileVal, hc, hf]

/-- Law 6: a read-only parameter yields its default whatever the other sources hold (they only
    raise the "read-only-param-set" message). -/
theorem readonly_default (p : Param) (env : Env) (fvs : List FV) (home : Option String)
    (hro : p.readOnly = true) :
    (resolve p env fvs home).src = .default ∧ (resolve p env fvs home).val = post home p.dflt ∧
    ((resolve p env fvs home).warn = true ↔
      (p.override.isSome ∨ (envFirst env (p.name :: p.syns)).isSome ∨ (lookupFileVal p fvs).isSome)) := by
  unfold resolve
  rw [if_pos hro]
  cases ho : p.override with
  | some v => simp
  | none =>
    cases he : envFirst env (p.name :: p.syns) with
    | some s => simp [lookupEnv, he]
    | none =>
      cases hf : lookupFileVal p fvs with
      | some r => simp [lookupEnv, he]
      | none => simp [lookupEnv, he]

/-- The complete decision table of `param_lookup`, as a specification of its result. -/
def Spec (p : Param) (env : Env) (fvs : List FV) (home : Option String) (f : Found) : Prop :=
  (p.readOnly = true → f.src = .default ∧ f.val = post home p.dflt) ∧
  (p.readOnly = false →
    (∀ v, p.override = some v → f.src = .override ∧ f.val = post home v) ∧
    (p.override = none →
      (∀ s, envFirst env (p.name :: p.syns) = some s → f.src = .env ∧ f.val = post home (parseVal p.ty (some s))) ∧
      (envFirst env (p.name :: p.syns) = none →
        (∀ r, lookupFileVal p fvs = some r → f.src = .file ∧ f.val = post home r.1 ∧ f.file = r.2) ∧
        (lookupFileVal p fvs = none → f.src = .default ∧ f.val = post home p.dflt))))

/-- C38, first half: for every parameter and every combination of sources, the value and the source
    reported are those of the highest-precedence source present:
    override > environment (primary, then synonyms) > parameter file > default. -/
theorem precedence (p : Param) (env : Env) (fvs : List FV) (home : Option String) :
    Spec p env fvs home (resolve p env fvs home) := by
  refine ⟨fun hro => ⟨(readonly_default p env fvs home hro).1, (readonly_default p env fvs home hro).2.1⟩, ?_⟩
  intro hro
  refine ⟨fun v ho => by simp [override_wins p env fvs home v hro ho], ?_⟩
  intro ho
  refine ⟨fun s he => by simp [env_over_file p env fvs home s hro ho he], ?_⟩
  intro he
  constructor
  · intro r hr
    simp [resolve, hro, ho, lookupEnv, he, hr]
  · intro hr
    simp [resolve, hro, ho, lookupEnv, he, hr]

/-! ## the stateful API -/

/-- `parsec_mca_param_lookup_*` / `lookup_source` on a registry state answer with `resolve` of the
    parameter, the current environment and the current file-value list; the call changes nothing but
    the file-value cache of that one parameter and the file-value list. -/
theorem lookup_spec (s s' : St) (i : Nat) (f : Found) (h : lookup s i = some (s', f)) :
    ∃ p, s.params[i]? = some p ∧ f = resolve p s.env s.fvs s.home ∧
      s'.env = s.env ∧ s'.home = s.home ∧ s'.inited = s.inited ∧
      (∀ j, j ≠ i → s'.params[j]? = s.params[j]?) := by
  unfold lookup at h
  cases hp : s.params[i]? with
  | none => simp [hp] at h
  | some p =>
    simp only [hp, lookupAt, Option.some.injEq, Prod.mk.injEq] at h
    obtain ⟨hs, hf⟩ := h
    refine ⟨p, rfl, hf.symm, ?_, ?_, ?_, ?_⟩
    · rw [← hs]
    · rw [← hs]
    · rw [← hs]
    · intro j hj
      rw [← hs]
      simp only
      rw [List.getElem?_set_ne (fun e => hj e.symm)]

theorem lookupEnv_cache (p : Param) (env : Env) (fvs : List FV) :
    lookupEnv (lookupFileParam p fvs) env = lookupEnv p env := by
  unfold lookupFileParam lookupEnv
  cases p.fileVal with
  | some v => rfl
  | none => cases fvFind p fvs <;> rfl

/-- Asking again gives the same answer: the cache written by a lookup and the removal of the used
    entry do not change what `param_lookup` returns (same environment). -/
theorem lookup_stable (p : Param) (env : Env) (fvs : List FV) (home : Option String) :
    resolve (lookupParam p env fvs) env (lookupList p env fvs) home = resolve p env fvs home := by
  unfold lookupParam lookupList
  cases hr : reachesFile p env with
  | false => simp
  | true =>
    simp only [if_true]
    unfold reachesFile at hr
    rw [Bool.and_eq_true] at hr
    have ho : p.override = none := by
      cases h : p.override with
      | none => rfl
      | some v => simp [h] at hr
    have he : lookupEnv p env = none := by
      cases h : lookupEnv p env with
      | none => rfl
      | some v => simp [h] at hr
    have hef : envFirst env (p.name :: p.syns) = none := by
      cases h : envFirst env (p.name :: p.syns) with
      | none => rfl
      | some x => simp [lookupEnv, h] at he
    cases hc : p.fileVal with
    | some v =>
      have h1 : lookupFileParam p fvs = p := by simp [lookupFileParam, hc]
      have h2 : lookupFileList p fvs = fvs := by simp [lookupFileList, hc]
      rw [h1, h2]
    | none =>
      cases hf : fvFind p fvs with
      | none =>
        have h1 : lookupFileParam p fvs = p := by simp [lookupFileParam, hc, hf]
        have h2 : lookupFileList p fvs = fvs := by simp [lookupFileList, hc, fvRemove_of_find_none p fvs hf]
        rw [h1, h2]
      | some fv =>
        have h1 : lookupFileParam p fvs = { p with fileVal := some (parseVal p.ty fv.value), srcFile := some fv.file } := by
          simp [lookupFileParam, hc, hf]
        rw [h1]
        cases hro : p.readOnly <;>
          simp [resolve, hro, ho, lookupEnv, hef, lookupFileVal, hc, hf]

/-- `parsec_mca_param_set_*` followed by a lookup: the value set is returned, source OVERRIDE. -/
theorem set_then_lookup (s s1 s2 : St) (i : Nat) (v : Val) (f : Found) (p : Param)
    (hp : s.params[i]? = some p) (hro : p.readOnly = false)
    (hset : setOverride s i v = some s1) (hl : lookup s1 i = some (s2, f)) :
    f = ⟨.override, post s.home v, none, false⟩ := by
  unfold setOverride at hset
  simp only [hp, Option.some.injEq] at hset
  obtain ⟨q, hq, hf, -⟩ := lookup_spec s1 s2 i f hl
  have hi : i < s.params.length := by
    rcases Nat.lt_or_ge i s.params.length with h | h
    · exact h
    · simp [List.getElem?_eq_none h] at hp
  rw [← hset] at hq hf
  simp only [setParam, List.getElem?_set_self hi, Option.some.injEq] at hq
  rw [hf, ← hq]
  exact override_wins _ _ _ _ v hro rfl

/-- only a parameter that has an override can report the source OVERRIDE -/
theorem src_ne_override (p : Param) (env : Env) (fvs : List FV) (home : Option String) (ho : p.override = none) :
    (resolve p env fvs home).src ≠ .override := by
  unfold resolve
  rw [ho]
  cases p.readOnly <;> cases lookupEnv p env <;> cases lookupFileVal p fvs <;> simp

/-- `parsec_mca_param_unset` followed by a lookup: the override no longer takes part; the answer
    is that of the remaining sources (never OVERRIDE). -/
theorem unset_then_lookup (s s1 s2 : St) (i : Nat) (f : Found) (p : Param)
    (hp : s.params[i]? = some p)
    (hun : unsetOverride s i = some s1) (hl : lookup s1 i = some (s2, f)) :
    f = resolve { p with override := none } s.env s.fvs s.home ∧ f.src ≠ .override := by
  unfold unsetOverride at hun
  simp only [hp, Option.some.injEq] at hun
  obtain ⟨q, hq, hf, -⟩ := lookup_spec s1 s2 i f hl
  have hi : i < s.params.length := by
    rcases Nat.lt_or_ge i s.params.length with h | h
    · exact h
    · simp [List.getElem?_eq_none h] at hp
  rw [← hun] at hq hf
  simp only [setParam, List.getElem?_set_self hi, Option.some.injEq] at hq
  rw [← hq] at hf
  exact ⟨hf, by rw [hf]; exact src_ne_override _ _ _ _ rfl⟩

/-! ## command line → environment -/

/-- C38, second half: repeated options for one parameter are joined with commas, in command-line
    order.  `l` is the list of (parameter, value) pairs of one option kind. -/
theorem join (l : List (String × String)) (n : String) :
    getenv (l.foldl (fun a e => processArg a e.1 e.2) []) n =
      if valuesOf l n = [] then none else some (commaJoin (valuesOf l n)) := by
  rw [foldl_processArg_get, getenv_nil, joinFrom_none]

/-- `commaJoin` is the usual comma-separated rendering -/
theorem commaJoin_examples :
    commaJoin ["a"] = "a" ∧ commaJoin ["a", "b", "c"] = "a,b,c" ∧ commaJoin ["1", "", "x"] = "1,,x" ∧
    commaJoin ["a", "b", "c"] = ",".intercalate ["a", "b", "c"] := by decide

/-- (parameter, value) pairs of the instances of one option, in command-line order -/
def pairsOf (insts : List (Opt × List String)) (o : Opt) : List (String × String) :=
  (insts.filter (fun i => i.1 = o)).map (fun i => (i.2.getD 0 "", i.2.getD 1 ""))

theorem collect_eq (insts : List (Opt × List String)) (o : Opt) :
    collect insts o = (pairsOf insts o).foldl (fun a e => processArg a e.1 e.2) [] := by
  unfold collect pairsOf
  rw [List.foldl_map]

/-- what one option kind asks for parameter `n` -/
def asked (insts : List (Opt × List String)) (o : Opt) (n : String) : Option String :=
  if valuesOf (pairsOf insts o) n = [] then none else some (commaJoin (valuesOf (pairsOf insts o) n))

theorem collect_get (insts : List (Opt × List String)) (o : Opt) (n : String) :
    getenv (collect insts o) n = asked insts o n := by
  rw [collect_eq, join]; rfl

theorem collect_nodup (insts : List (Opt × List String)) (o : Opt) : (keys (collect insts o)).Nodup := by
  rw [collect_eq]
  exact foldl_processArg_nodup _ [] (by simp [keys])

/-- The environment after parsec_init has processed its arguments: `--mca` (joined) wins over
    `--gmca` (joined) wins over what was there before (including what `-am` put there). -/
theorem cmdline_to_env (env : Env) (insts : List (Opt × List String)) (n : String) :
    getenv (applyInsts env insts) n =
      match asked insts .mca n with
      | some v => some v
      | none =>
        match asked insts .gmca n with
        | some v => some v
        | none => getenv (amEnv env insts) n := by
  unfold applyInsts
  rw [setenvAll_get, setenvAll_get, lastVal_eq_getenv _ _ (collect_nodup insts .mca),
    lastVal_eq_getenv _ _ (collect_nodup insts .gmca), collect_get, collect_get]
  cases asked insts .mca n <;> cases asked insts .gmca n <;> rfl

/-- `--mca` beats `--gmca` for the same parameter, and both beat a pre-existing variable. -/
theorem mca_over_gmca (env : Env) (insts : List (Opt × List String)) (n v : String)
    (h : asked insts .mca n = some v) : getenv (applyInsts env insts) n = some v := by
  rw [cmdline_to_env, h]

/-- End to end: if the command line carries `--mca <name> v₁ … --mca <name> v_k` (k ≥ 1) for the
    primary name of a parameter that is neither read-only nor overridden, a lookup after
    parsec_init's argument processing returns `v₁,…,v_k` converted at the parameter's type, source
    ENV — whatever the previous environment, the parameter files and the default were. -/
theorem cmdline_end_to_end (p : Param) (env : Env) (fvs : List FV) (home : Option String) (argv : List String)
    (hro : p.readOnly = false) (ho : p.override = none)
    (hk : valuesOf (pairsOf (parseArgs (argv.length + 1) (initArgv argv)).1 .mca) p.name ≠ []) :
    resolve p (applyArgs env argv).1 fvs home =
      ⟨.env, post home (parseVal p.ty (some (commaJoin
        (valuesOf (pairsOf (parseArgs (argv.length + 1) (initArgv argv)).1 .mca) p.name)))), none, false⟩ := by
  apply env_over_file p _ fvs home _ hro ho
  apply synonym_order _ [] p.name p.syns _ (fun _ h => by cases h)
  unfold applyArgs
  simp only
  apply mca_over_gmca
  unfold asked
  rw [if_neg hk]

/-- an argument vector made only of `--mca name value` triples -/
def mcaArgv (l : List (String × String)) : List String := l.flatMap (fun e => ["--mca", e.1, e.2])

/-- such a vector is parsed into exactly its triples, in order, without error -/
theorem parse_mca_argv (l : List (String × String)) (fuel : Nat) (h : l.length < fuel) :
    parseArgs fuel (mcaArgv l) = (l.map (fun e => (Opt.mca, [e.1, e.2])), false) := by
  induction l generalizing fuel with
  | nil =>
    cases fuel with
    | zero => omega
    | succ f => simp [mcaArgv, parseArgs]
  | cons e t ih =>
    cases fuel with
    | zero => omega
    | succ f =>
      have ht : t.length < f := by simp at h; omega
      have hcons : mcaArgv (e :: t) = "--mca" :: e.1 :: e.2 :: mcaArgv t := by simp [mcaArgv]
      rw [hcons, parseArgs]
      have h1 : ("--mca" = "--") = False := by decide
      have h2 : ("--mca".toList.head? ≠ some '-') = False := by decide
      have h3 : findOpt (String.ofList (optName "--mca".toList)) = some Opt.mca := by decide
      simp only [h1, h2, if_false, h3]
      have h4 : ¬ (e.1 :: e.2 :: mcaArgv t).length < Opt.mca.nparams := by simp [Opt.nparams]
      simp only [h4, if_false]
      have h5 : (e.1 :: e.2 :: mcaArgv t).take Opt.mca.nparams = [e.1, e.2] := by simp [Opt.nparams]
      have h6 : (e.1 :: e.2 :: mcaArgv t).drop Opt.mca.nparams = mcaArgv t := by simp [Opt.nparams]
      rw [h5, h6, ih f ht]
      simp

theorem pairsOf_mca (l : List (String × String)) :
    pairsOf (l.map (fun e => (Opt.mca, [e.1, e.2]))) .mca = l := by
  induction l with
  | nil => rfl
  | cons e t ih =>
    simp only [pairsOf] at ih ⊢
    simp
    simpa using ih

theorem mcaArgv_length (l : List (String × String)) : (mcaArgv l).length = 3 * l.length := by
  induction l with
  | nil => rfl
  | cons e t ih =>
    have hcons : mcaArgv (e :: t) = "--mca" :: e.1 :: e.2 :: mcaArgv t := by simp [mcaArgv]
    rw [hcons]; simp [ih]; omega

theorem initArgv_mca (l : List (String × String)) : initArgv (mcaArgv l) = mcaArgv l := by
  cases l with
  | nil => rfl
  | cons e t =>
    have hcons : mcaArgv (e :: t) = "--mca" :: e.1 :: e.2 :: mcaArgv t := by simp [mcaArgv]
    rw [hcons, initArgv]
    have h : ("--mca" = "--" ∨ "--mca".toList.head? ≠ some '-') = False := by decide
    simp only [h, if_false]

/-- C38 for a whole command line: parsec_init called with `--mca n₁ v₁ --mca n₂ v₂ …` leaves, for every
    parameter named at least once, the comma-joined list of its values (in command-line order) as the
    effective value — source ENV, converted at the parameter's type — unless the parameter is
    read-only or overridden; previous environment, parameter files and default do not matter. -/
theorem repeated_mca_joined (p : Param) (env : Env) (fvs : List FV) (home : Option String)
    (l : List (String × String)) (hro : p.readOnly = false) (ho : p.override = none)
    (hk : valuesOf l p.name ≠ []) :
    resolve p (applyArgs env (mcaArgv l)).1 fvs home =
      ⟨.env, post home (parseVal p.ty (some (commaJoin (valuesOf l p.name)))), none, false⟩ := by
  have hp : (parseArgs ((mcaArgv l).length + 1) (initArgv (mcaArgv l))).1 = l.map (fun e => (Opt.mca, [e.1, e.2])) := by
    rw [initArgv_mca, parse_mca_argv l _ (by rw [mcaArgv_length]; omega)]
  have h := cmdline_end_to_end p env fvs home (mcaArgv l) hro ho (by rw [hp, pairsOf_mca]; exact hk)
  rw [hp, pairsOf_mca] at h
  exact h

/-! ## parameter files -/

/-- Inside one parameter file the last line naming a parameter wins. -/
theorem save_value_last_wins (c : FileContent) (fvs : List FV) (file n : String) (v : Option String)
    (h : lastLine c n = some v) : fvValue (parseFile fvs file c) n = some v := by
  rw [parseFile_value, h]

/-- In the file list `mca_param_files` the leftmost file that names a parameter wins (files are read
    right to left and later reads replace earlier values), whatever the list held before. -/
theorem file_list_first_wins (fs : Files) (fvs : List FV) (pre : List String) (f : String) (rest : List String)
    (c : FileContent) (n : String) (v : Option String)
    (hpre : ∀ g ∈ pre, ∀ cg, fileContent fs g = some cg → ∀ e ∈ cg, e.1 ≠ n)
    (hf : fileContent fs f = some c) (hv : lastLine c n = some v) :
    fvValue (readFiles fs fvs (pre ++ f :: rest)) n = some v := by
  rw [readFiles_eq, List.reverse_append, List.reverse_cons, List.foldl_append, List.foldl_append]
  rw [foldl_readOne_frame fs pre.reverse _ n (fun g hg => hpre g (List.mem_reverse.mp hg))]
  simp only [List.foldl_cons, List.foldl_nil]
  unfold readOne
  simp only [hf]
  exact save_value_last_wins c _ f n v hv

/-- Between the primary name and a synonym *in the file values* it is list order that decides (first
    entry carrying any of the names), unlike the environment where the primary name goes first. -/
theorem file_synonym_order_is_file_order (p : Param) (pre : List FV) (fv : FV) (rest : List FV)
    (hpre : ∀ x ∈ pre, fvMatches p x = false) (hfv : fvMatches p fv = true) :
    fvFind p (pre ++ fv :: rest) = some fv ∧
    (∃ (q : Param) (l : List FV) (w : FV), fvFind q l = some w ∧ w.name ≠ q.name ∧ ∃ u ∈ l, u.name = q.name) :=
  ⟨fvFind_append p pre fv rest hpre hfv,
   ⟨⟨.int, "pv_a", false, .int 0, none, none, none, ["alt_a"]⟩,
    [⟨"alt_a", some "1", "F0"⟩, ⟨"pv_a", some "2", "F0"⟩], ⟨"alt_a", some "1", "F0"⟩,
    by decide, by decide, ⟨"pv_a", some "2", "F0"⟩, by decide, rfl⟩⟩

/-! ## text → number: `(int)strtol(s, NULL, 0)` and `(size_t)strtoll(s, NULL, 0)` -/

theorem leadDigit_not_special : ∀ d : Fin 9,
    isSpace (digitChar (d.val + 1)) = false ∧ digitChar (d.val + 1) ≠ '-' ∧ digitChar (d.val + 1) ≠ '+' ∧
    digitChar (d.val + 1) ≠ '0' := by decide

theorem magnitude_lead (d : Fin 9) (t : List Char) :
    magnitude (digitChar (d.val + 1) :: t) = digitsIn 10 (digitChar (d.val + 1) :: t) 0 := by
  simp [magnitude, (leadDigit_not_special d).2.2.2]

theorem signed_lead (d : Fin 9) (t : List Char) :
    signed (digitChar (d.val + 1) :: t) = (digitsIn 10 (digitChar (d.val + 1) :: t) 0 : Int) := by
  simp [signed, (leadDigit_not_special d).2.1, (leadDigit_not_special d).2.2.1, magnitude_lead]

/-- A decimal numeral without leading zero, followed by end of text or a non-digit, converts to its
    value, saturated at LONG_MAX. -/
theorem parse_decimal (d : Fin 9) (ds : List (Fin 10)) (rest : List Char) (h : stops10 rest) :
    strtol (digitChar (d.val + 1) :: (ds.map (fun x => digitChar x.val) ++ rest)) =
      clampLong (horner ds (d.val + 1)) := by
  unfold strtol
  rw [List.dropWhile_cons]
  simp only [(leadDigit_not_special d).1, Bool.false_eq_true, if_false]
  rw [signed_lead, digitsIn, digitVal_digitChar ⟨d.val + 1, by omega⟩]
  simp only [show d.val + 1 < 10 by omega, if_true]
  rw [digitsIn_decimal ds rest h]
  simp

/-- The same with a minus sign (and any leading white space). -/
theorem parse_decimal_neg (ws : List Char) (hws : ∀ c ∈ ws, isSpace c = true)
    (d : Fin 9) (ds : List (Fin 10)) (rest : List Char) (h : stops10 rest) :
    strtol (ws ++ '-' :: digitChar (d.val + 1) :: (ds.map (fun x => digitChar x.val) ++ rest)) =
      clampLong (-(horner ds (d.val + 1) : Int)) := by
  unfold strtol
  have hdw : (ws ++ '-' :: digitChar (d.val + 1) :: (ds.map (fun x => digitChar x.val) ++ rest)).dropWhile isSpace
      = '-' :: digitChar (d.val + 1) :: (ds.map (fun x => digitChar x.val) ++ rest) := by
    induction ws with
    | nil => rw [List.nil_append, List.dropWhile_cons]; simp [isSpace]
    | cons c t ih =>
      rw [List.cons_append, List.dropWhile_cons]
      simp only [hws c (List.mem_cons_self), if_true]
      exact ih (fun x hx => hws x (List.mem_cons_of_mem _ hx))
  rw [hdw]
  have hm := magnitude_lead d (ds.map (fun x => digitChar x.val) ++ rest)
  simp only [signed, if_true]
  rw [hm, digitsIn, digitVal_digitChar ⟨d.val + 1, by omega⟩]
  simp only [show d.val + 1 < 10 by omega, if_true]
  rw [digitsIn_decimal ds rest h]
  simp

/-- Out-of-range text saturates in `strtol` and is then truncated by the cast: anything above
    LONG_MAX reads as the int -1, anything below LONG_MIN as 0; values that fit an int are kept. -/
theorem parse_saturates (x : Int) :
    (x > longMax → toInt32 (clampLong x) = -1) ∧
    (x < longMin → toInt32 (clampLong x) = 0) ∧
    (-(2:Int)^31 ≤ x ∧ x < (2:Int)^31 → toInt32 (clampLong x) = x) := by
  unfold clampLong toInt32 longMax longMin
  refine ⟨fun h => ?_, fun h => ?_, fun h => ?_⟩
  · simp only [h, if_true]; omega
  · have h1 : ¬ x > 2 ^ 63 - 1 := by omega
    simp only [h1, h, if_true, if_false]; omega
  · have h1 : ¬ x > 2 ^ 63 - 1 := by omega
    have h2 : ¬ x < -(2 ^ 63) := by omega
    simp only [h1, h2, if_false]; omega

/-- size_t parameters: non-negative values up to LLONG_MAX are kept, negative ones wrap modulo 2^64
    (so `-1` reads as SIZE_MAX), larger ones saturate at LLONG_MAX. -/
theorem parse_sizet_decimal (x : Int) :
    (0 ≤ x ∧ x ≤ longMax → toSizet (clampLong x) = x.toNat) ∧
    (longMin ≤ x ∧ x < 0 → (toSizet (clampLong x) : Int) = x + 2 ^ 64) ∧
    (x > longMax → toSizet (clampLong x) = 2 ^ 63 - 1) := by
  unfold clampLong toSizet longMax longMin
  refine ⟨fun h => ?_, fun h => ?_, fun h => ?_⟩
  · have h1 : ¬ x > 2 ^ 63 - 1 := by omega
    have h2 : ¬ x < -(2 ^ 63) := by omega
    simp only [h1, h2, if_false]; omega
  · have h1 : ¬ x > 2 ^ 63 - 1 := by omega
    have h2 : ¬ x < -(2 ^ 63) := by omega
    simp only [h1, h2, if_false]; omega
  · simp only [h, if_true]; omega

/-! ## the hypotheses are satisfiable; the model computes the expected answers -/

def pInt : Param := ⟨.int, "pv_a", false, .int 7, none, none, none, ["alt_a", "old_a"]⟩
def fvs0 : List FV := [⟨"old_a", some "0x10", "F1"⟩, ⟨"pv_a", some "3", "F0"⟩]
def env0 : Env := [("old_a", "5"), ("alt_a", "6")]

-- all four sources present: override
example : resolve { pInt with override := some (.int 99) } env0 fvs0 (some "/hm") = ⟨.override, .int 99, none, false⟩ := by decide
-- override absent: environment, first synonym in registration order (alt_a before old_a), not the file
example : resolve pInt env0 fvs0 (some "/hm") = ⟨.env, .int 6, none, false⟩ := by decide
example : envFirst env0 (pInt.name :: pInt.syns) = some "6" :=
  synonym_order env0 ["pv_a"] "alt_a" ["old_a"] "6" (by decide) (by decide)
-- environment absent: file, first entry in list order (the synonym's 0x10 = 16)
example : resolve pInt [] fvs0 (some "/hm") = ⟨.file, .int 16, some "F1", false⟩ := by decide
-- nothing: default
example : resolve pInt [] [] (some "/hm") = ⟨.default, .int 7, none, false⟩ := by decide
-- read-only: default plus the warning
example : resolve { pInt with readOnly := true } env0 fvs0 (some "/hm") = ⟨.default, .int 7, none, true⟩ := by decide
-- strings get their "~/" expanded whatever the source
example : resolve ⟨.str, "pv_s", false, .str (some "~/d"), none, none, none, []⟩ [("pv_s", "~/x:~/y:z")] [] (some "/hm")
    = ⟨.env, .str (some "/hm/x:/hm/y:z"), none, false⟩ := by decide
-- command line: repeated --mca joined, -mca accepted, --gmca loses, unknown option stops the parse
example : (applyArgs [("pv_a", "0")] ["prog", "--mca", "pv_a", "1", "--gmca", "pv_a", "9", "-mca", "pv_a", "2", "--bogus", "--mca", "pv_a", "3"])
    = ([("pv_a", "1,2")], true) := by decide
example : valuesOf (pairsOf (parseArgs 9 (initArgv ["--mca", "pv_a", "1", "--mca", "pv_a", "2"])).1 .mca) pInt.name = ["1", "2"] := by decide
example : resolve pInt (applyArgs env0 ["--mca", "pv_a", "1", "--mca", "pv_a", "2"]).1 fvs0 none = ⟨.env, .int 1, none, false⟩ := by decide
def l3 : List (String × String) := [("pv_a", "1"), ("pv_x", "9"), ("pv_a", "2")]
example : resolve pInt (applyArgs env0 (mcaArgv l3)).1 fvs0 none =
    ⟨.env, post none (parseVal pInt.ty (some (commaJoin (valuesOf l3 pInt.name)))), none, false⟩ :=
  repeated_mca_joined pInt env0 fvs0 none l3 rfl rfl (by decide)
example : commaJoin (valuesOf l3 pInt.name) = "1,2" ∧ parseVal .int (some "1,2") = .int 1 ∧ parseVal .str (some "1,2") = .str (some "1,2") := by decide
-- files: F0 is left of F1, so its value wins; within F1 the last line wins
def fs0 : Files := [("F0", [("pv_a", some "3")]), ("F1", [("pv_a", some "4"), ("pv_b", some "1"), ("pv_b", some "2")])]
example : fvValue (readFiles fs0 [] ["F0", "F1"]) "pv_a" = some (some "3") := by decide
example : fvValue (readFiles fs0 [] ["F0", "F1"]) "pv_b" = some (some "2") := by decide
-- conversions
example : parseInt "0x1F" = 31 ∧ parseInt "017" = 15 ∧ parseInt " -12abc" = -12 ∧ parseInt "abc" = 0 ∧
    parseInt "4294967296" = 0 ∧ parseInt "9223372036854775808" = -1 ∧ parseSizet "-1" = 2^64 - 1 := by decide
example : stops10 [] ∧ stops10 ['a', 'b'] ∧ stops10 [','] :=
  ⟨Or.inl rfl, Or.inr ⟨'a', ['b'], rfl, Or.inr ⟨10, by decide, by decide⟩⟩, Or.inr ⟨',', [], rfl, Or.inl (by decide)⟩⟩
-- stateful API: set, lookup, unset, lookup on a registry holding `pInt` at index 1
def st0 : St := ⟨true, [⟨.str, "mca_param_files", false, .str (some "DEFAULTFILES"), none, none, none, []⟩, pInt], fvs0, env0, some "/hm", some "/hm", []⟩
example : (lookup ((setOverride st0 1 (.int 5)).getD st0) 1).map (·.2) = some ⟨.override, .int 5, none, false⟩ := by decide
example : (lookup ((unsetOverride ((setOverride st0 1 (.int 5)).getD st0) 1).getD st0) 1).map (·.2) = some ⟨.env, .int 6, none, false⟩ := by decide
example : ((lookup { st0 with env := [] } 1).map (·.1.fvs), (lookup { st0 with env := [] } 1).map (·.1.params[1]?.map (·.fileVal)))
    = (some [⟨"pv_a", some "3", "F0"⟩], some (some (some (.int 16)))) := by decide

end ParsecVerif.C38
