import ParsecVerif.Proofs.DtdSteps
import ParsecVerif.Base.Interleave
/-!
# C03 — DTD results equal sequential execution in insertion order

For EVERY insertion sequence `p` (any data, any access modes, a datum may occur several times in one
task), EVERY number of workers `nw` and EVERY run of the abstract runtime machine (any interleaving of
insertions — by the main thread, by the sliding window, by running tasks — with selections, AGAIN
retries, body starts and completions): each task observes the inputs, and the data finally hold the
values, of the execution of the tasks one at a time in insertion order (`seqExec`).

Proof shape: `Inv` (Proofs/DtdInv.lean) is an inductive invariant of the machine.  Its clause `prec`
says that every run is a linear extension of the conflict order (`chain_iff_conflict`: the parent
recorded at insertion is the previous writer), its clauses `obs_eq`/`mem_eq` say that a run which
respects the conflict order computes the sequential values.
-/
namespace ParsecVerif.C03
open ParsecVerif.Dtd

/-! ## `seqExec` (left-to-right run) and the indexed form used in the invariant coincide -/

theorem drop_cons_get {α} (l : List α) (k : Nat) (x : α) (xs : List α) (h : l.drop k = x :: xs) :
    l[k]? = some x ∧ l.drop (k + 1) = xs := by
  constructor
  · have := congrArg List.head? h
    simpa [List.head?_drop] using this
  · have := congrArg List.tail h
    simpa [List.tail_drop] using this

theorem seqRun_eq (p : Prog) (ts : List Task) (k : Nat) (h : p.drop k = ts) :
    seqRun ts (seqStore p k) = ((List.range' k ts.length).map (seqObs p), seqStore p (k + ts.length)) := by
  induction ts generalizing k with
  | nil => simp [seqRun]
  | cons t ts ih =>
    obtain ⟨hk, hd⟩ := drop_cons_get p k t ts h
    have hs : exec t (readsOf t (seqStore p k)) (seqStore p k) = seqStore p (k + 1) := by
      simp only [seqStore, hk]
    simp only [seqRun, hs, ih (k + 1) hd, List.length_cons, List.range'_succ, List.map_cons]
    refine Prod.ext ?_ ?_
    · simp [seqObs, hk]
    · simp only []; congr 1; omega

theorem seqExec_obs (p : Prog) : (seqExec p).obs = (List.range p.length).map (seqObs p) := by
  have := seqRun_eq p p 0 (by simp)
  simp only [seqExec, seqStore] at *
  rw [this]; simp [List.range_eq_range']

theorem seqExec_final (p : Prog) : (seqExec p).final = seqStore p p.length := by
  have := seqRun_eq p p 0 (by simp)
  simp only [seqExec, seqStore] at *
  rw [this]; simp

/-! ## the property -/

/-- the parent recorded in a chain node at insertion is exactly the closest earlier task that
    conflicts as a writer (`chain_iff_conflict` of DESIGN.md) -/
theorem chain_iff_conflict (p : Prog) (nw : Nat) (ms : List Move) (hv : Valid p nw ms) (a : Acc)
    (ha : a ∈ (run p init ms).accs) :
    a.parent = prevWriter p a.t a.d ∧ usesAt p a.t a.d = true ∧ a.wr = writesAt p a.t a.d :=
  let h := (inv_reachable p nw ms hv).acc_sound a ha
  ⟨h.2.2.2, h.2.1, h.2.2.1⟩

/-- every run is a linear extension of the conflict order: in every reachable state, a task whose
    body has begun is preceded, in completion, by every earlier-inserted task that conflicts with it -/
theorem C03_linear_extension (p : Prog) (nw : Nat) (ms : List Move) (hv : Valid p nw ms) (t u d : Nat)
    (hut : u < t) (hs : started (run p init ms) t = true) (hc : conflict p u t d = true) :
    isDone (run p init ms) u = true :=
  (inv_reachable p nw ms hv).prec t u d hut hs hc

/-- in every reachable state (complete run or not) a task that has begun has read exactly the values
    the sequential execution gives it -/
theorem C03_observed (p : Prog) (nw : Nat) (ms : List Move) (hv : Valid p nw ms) (t : Nat)
    (hs : started (run p init ms) t = true) : (run p init ms).obs[t]? = some (seqObs p t) :=
  (inv_reachable p nw ms hv).obs_eq t hs

/-- **C03.**  Every complete run of the machine, for every insertion sequence and every number of
    workers, gives every task the observed inputs of `seqExec` and leaves the data with the final
    values of `seqExec`. -/
theorem C03_sequential (p : Prog) (nw : Nat) (ms : List Move) (hv : Valid p nw ms)
    (hc : Complete p (run p init ms)) :
    (run p init ms).obs = (seqExec p).obs ∧ ∀ d, (run p init ms).mem d = (seqExec p).final d := by
  have h := inv_reachable p nw ms hv
  obtain ⟨hlen, hdone⟩ := hc
  constructor
  · rw [seqExec_obs]
    apply List.ext_getElem?
    intro i
    by_cases hi : i < p.length
    · rw [h.obs_eq i (isDone_started _ i (hdone i hi))]
      simp [hi]
    · rw [getElem?_none_of_ge _ _ (by rw [h.len_obs, hlen]; exact hi)]
      simp [hi]
  · intro d
    rw [seqExec_final]
    apply h.mem_eq d p.length (by omega)
    · intro u hu _; exact hdone u hu
    · intro u hu _; exact not_done_ge _ u (by omega)

/-! ## the statement is not vacuous: complete runs exist for every program, and the machine cannot
    get stuck -/

theorem exists_min (P : Nat → Prop) (h : ∃ t, P t) : ∃ t, P t ∧ ∀ u, u < t → ¬ P u := by
  obtain ⟨t, ht⟩ := h
  induction t using Nat.strongRecOn with
  | _ t ih =>
    by_cases hm : ∃ u, u < t ∧ P u
    · obtain ⟨u, hu, hpu⟩ := hm; exact ih u hu hpu
    · exact ⟨t, ht, fun u hu hpu => hm ⟨u, hu, hpu⟩⟩

theorem enabled_ins_of_lt (p : Prog) (nw : Nat) (s : St) (h : s.status.length < p.length) :
    enabled p nw s .ins = true := by simp [enabled, h]

/-- **No deadlock.**  In every reachable state that is not complete some move other than an AGAIN
    retry is enabled (with at least one worker): the next insertion, the completion of a running
    task, or the start of the oldest unfinished task. -/
theorem C03_no_deadlock (p : Prog) (nw : Nat) (hnw : 1 ≤ nw) (ms : List Move) (hv : Valid p nw ms)
    (hnc : ¬ Complete p (run p init ms)) :
    ∃ m, (∀ t, m ≠ .again t) ∧ enabled p nw (run p init ms) m = true := by
  have h := inv_reachable p nw ms hv
  generalize run p init ms = s at *
  by_cases hlen : s.status.length < p.length
  · exact ⟨.ins, fun t => by simp, enabled_ins_of_lt p nw s hlen⟩
  · have hlen' : s.status.length = p.length := by have := h.len_le; omega
    -- somebody is running: its completion is enabled
    by_cases hrun : ∃ u, isRunning s u = true
    · obtain ⟨u, hu⟩ := hrun
      exact ⟨.finish u, fun t => by simp, by simpa [enabled] using hu⟩
    · have hnorun : ∀ u, isRunning s u = false := by
        intro u
        cases hu : isRunning s u with
        | false => rfl
        | true => exact absurd ⟨u, hu⟩ hrun
      -- the oldest task that is not done
      have hex : ∃ t, t < p.length ∧ isDone s t = false := by
        apply Classical.byContradiction
        intro hno
        apply hnc
        refine ⟨hlen', fun t ht => ?_⟩
        cases hd : isDone s t with
        | true => rfl
        | false => exact absurd ⟨t, ht, hd⟩ hno
      obtain ⟨t, ⟨htlt, htnd⟩, hmin⟩ := exists_min (fun t => t < p.length ∧ isDone s t = false) hex
      have hbefore : ∀ u, u < t → isDone s u = true := by
        intro u hu
        cases hd : isDone s u with
        | true => rfl
        | false => exact absurd ⟨by omega, hd⟩ (hmin u hu)
      have htw : isWaiting s t = true := by
        have h1 := hnorun t
        simp only [isRunning, isDone, isWaiting] at *
        have hl : t < s.status.length := by omega
        rw [List.getElem?_eq_getElem hl] at *
        cases hst : s.status[t] <;> simp_all
      have hnst : started s t = false := not_started_of_waiting s t htw
      refine ⟨.start t, fun u => by simp, ?_⟩
      simp only [enabled, htw, Bool.true_and, Bool.and_eq_true, Bool.not_eq_true', decide_eq_true_eq]
      refine ⟨⟨?_, ?_⟩, ?_⟩
      · -- ready: every parent is an earlier task, hence done
        simp only [ready, List.all_eq_true, Bool.or_eq_true, bne_iff_ne, ne_eq]
        intro a ha
        by_cases hat : a.t = t
        · right
          rw [h.act_iff a ha]
          obtain ⟨_, _, _, hp⟩ := h.acc_sound a ha
          cases hpp : a.parent with
          | none => rfl
          | some w =>
            rw [hpp] at hp
            obtain ⟨hw, _, _⟩ := prevWriter_some p a.t a.d w hp.symm
            exact hbefore w (by omega)
        · left; exact hat
      · -- not blocked: an unfinished satisfied reader of a datum `t` writes would be a later task
        -- whose parent is at or after `t`, hence not done
        simp only [blocked, List.any_eq_false, Bool.and_eq_true, beq_iff_eq, bne_iff_ne, ne_eq, not_and,
          Decidable.not_not]
        intro a ha ⟨hat, hawr⟩
        rw [h.readers_eq a.d]
        apply List.countP_eq_zero.2
        intro b hb
        simp only [Bool.and_eq_true, beq_iff_eq, Bool.not_eq_true', not_and, Bool.not_eq_false]
        intro ⟨⟨hbd, hbwr⟩, hbact⟩
        obtain ⟨_, _, hawr', _⟩ := h.acc_sound a ha
        rw [hat] at hawr'
        have hwt : writesAt p t a.d = true := by rw [← hawr']; exact hawr
        obtain ⟨hbl, hbu, hbwr', hbp⟩ := h.acc_sound b hb
        rw [hbd] at hbwr' hbp hbu
        cases hdb : isDone s b.t with
        | true => rfl
        | false =>
          exfalso
          have hbt : t ≤ b.t := by
            cases Nat.lt_or_ge b.t t with
            | inl hh => have := hbefore b.t hh; rw [hdb] at this; cases this
            | inr hh => exact hh
          have hne : b.t ≠ t := by
            intro he; rw [he, hwt] at hbwr'; rw [hbwr'] at hbwr; cases hbwr
          obtain ⟨w, hw1, hw2⟩ := prevWriter_ge p b.t a.d t (by omega) hwt
          have hact := h.act_iff b hb
          rw [hbp, hw1, hbact] at hact
          have hwd : isDone s w = true := hact.symm
          by_cases hwt' : w = t
          · rw [hwt', htnd] at hwd; cases hwd
          · obtain ⟨_, hww, _⟩ := prevWriter_some p b.t a.d w hw1
            have := h.prec w t a.d (by omega) (isDone_started s w hwd)
              ((conflict_iff p t w a.d).2 ⟨writesAt_usesAt p t a.d hwt, writesAt_usesAt p w a.d hww, Or.inl hwt⟩)
            rw [htnd] at this; cases this
      · -- a worker is free
        have : runningCount s = 0 := by
          simp only [runningCount]
          apply List.count_eq_zero.2
          intro hm
          obtain ⟨i, hi, hget⟩ := List.getElem_of_mem hm
          have := hnorun i
          simp [isRunning, List.getElem?_eq_getElem hi, hget] at this
        omega

/-! ## every run can be completed -/

theorem run_append (p : Prog) (s : St) (ms ms' : List Move) : run p s (ms ++ ms') = run p (run p s ms) ms' := by
  simp [run, List.foldl_append]

theorem validFrom_append (p : Prog) (nw : Nat) (s : St) (ms ms' : List Move) :
    ValidFrom p nw s (ms ++ ms') ↔ ValidFrom p nw s ms ∧ ValidFrom p nw (run p s ms) ms' := by
  induction ms generalizing s with
  | nil => simp [ValidFrom, run]
  | cons m ms ih =>
    simp only [List.cons_append, ValidFrom, ih, run, List.foldl_cons]
    constructor
    · rintro ⟨h1, h2, h3⟩; exact ⟨⟨h1, h2⟩, h3⟩
    · rintro ⟨⟨h1, h2⟩, h3⟩; exact ⟨h1, h2, h3⟩

/-- progress measure: grows by one with every insertion, body start and completion -/
def progress (s : St) : Nat := s.status.length + s.status.count .running + 2 * s.status.count .done

theorem status_counts (l : List Status) : l.length = l.count .waiting + l.count .running + l.count .done := by
  induction l with
  | nil => simp
  | cons x t ih =>
    simp only [List.length_cons, List.count_cons]
    cases x <;> simp <;> omega

theorem progress_le (s : St) : progress s ≤ 3 * s.status.length := by
  have := status_counts s.status
  simp only [progress]; omega

theorem count_set_status (l : List Status) (t : Nat) (x y b : Status) (h : l[t]? = some x) :
    (l.set t y).count b + (if x = b then 1 else 0) = l.count b + (if y = b then 1 else 0) := by
  obtain ⟨hi, hx⟩ := List.getElem?_eq_some_iff.1 h
  have := ParsecVerif.Interleave.count_set_move l t y hi b
  rw [hx] at this
  exact this

theorem progress_step (p : Prog) (nw : Nat) (s : St) (m : Move) (hinv : Dtd.Inv p s) (hna : ∀ t, m ≠ .again t)
    (he : enabled p nw s m = true) : progress (step p s m) = progress s + 1 := by
  cases m with
  | ins =>
    simp only [enabled, decide_eq_true_eq] at he
    simp only [step]
    rw [List.getElem?_eq_getElem he]
    simp [progress, stepIns, List.count_append]
    omega
  | start t =>
    simp only [enabled, Bool.and_eq_true] at he
    have hw : s.status[t]? = some .waiting := by simpa [isWaiting] using he.1.1.1
    have hlt := (List.getElem?_eq_some_iff.1 hw).1
    simp only [step]
    cases hp : p[t]? with
    | none =>
      -- an inserted task is a task of the program
      exfalso
      have := hinv.len_le
      rw [List.getElem?_eq_none_iff] at hp
      omega
    | some tk =>
      have h1 := count_set_status s.status t .waiting .running .running hw
      have h2 := count_set_status s.status t .waiting .running .done hw
      simp at h1 h2
      simp only [progress, stepStart, List.length_set]
      omega
  | again t => exact absurd rfl (hna t)
  | finish t =>
    simp only [enabled] at he
    have hw : s.status[t]? = some .running := by simpa [isRunning] using he
    simp only [step]
    cases hp : p[t]? with
    | none =>
      exfalso
      have := hinv.len_le
      have hlt := (List.getElem?_eq_some_iff.1 hw).1
      rw [List.getElem?_eq_none_iff] at hp
      omega
    | some tk =>
      have h1 := count_set_status s.status t .running .done .running hw
      have h2 := count_set_status s.status t .running .done .done hw
      simp at h1 h2
      simp only [progress, stepFinish, List.length_set]
      omega

/-- **Every run can be completed.**  From every reachable state, with at least one worker, there is a
    continuation (without AGAIN retries) that inserts and completes every task: the hypotheses of
    `C03_sequential` are satisfiable for every insertion sequence, and no schedule can paint the
    machine into a corner. -/
theorem C03_extends_to_complete (p : Prog) (nw : Nat) (hnw : 1 ≤ nw) (ms : List Move) (hv : Valid p nw ms) :
    ∃ ms', Valid p nw (ms ++ ms') ∧ Complete p (run p init (ms ++ ms')) := by
  -- induction on the distance of the progress measure to its bound
  have key : ∀ k ms, Valid p nw ms → 3 * p.length - progress (run p init ms) ≤ k →
      ∃ ms', Valid p nw (ms ++ ms') ∧ Complete p (run p init (ms ++ ms')) := by
    intro k
    induction k with
    | zero =>
      intro ms hv hk
      by_cases hc : Complete p (run p init ms)
      · exact ⟨[], by simpa using hv, by simpa using hc⟩
      · obtain ⟨m, hna, hen⟩ := C03_no_deadlock p nw hnw ms hv hc
        have hinv := inv_reachable p nw ms hv
        have hps := progress_step p nw _ m hinv hna hen
        have hinv' := inv_step p nw _ m hinv hen
        have hle := progress_le (step p (run p init ms) m)
        have := hinv'.len_le
        omega
    | succ k ih =>
      intro ms hv hk
      by_cases hc : Complete p (run p init ms)
      · exact ⟨[], by simpa using hv, by simpa using hc⟩
      · obtain ⟨m, hna, hen⟩ := C03_no_deadlock p nw hnw ms hv hc
        have hinv := inv_reachable p nw ms hv
        have hps := progress_step p nw _ m hinv hna hen
        have hv' : Valid p nw (ms ++ [m]) := by
          simp only [Valid]
          rw [validFrom_append]
          exact ⟨hv, hen, trivial⟩
        have hrun : run p init (ms ++ [m]) = step p (run p init ms) m := by
          rw [run_append]; rfl
        obtain ⟨ms', h1, h2⟩ := ih (ms ++ [m]) hv' (by rw [hrun, hps]; omega)
        exact ⟨m :: ms', by simpa using h1, by simpa using h2⟩
  exact key _ ms hv (Nat.le_refl _)

/-- in particular complete runs exist for every insertion sequence -/
theorem C03_complete_run_exists (p : Prog) (nw : Nat) (hnw : 1 ≤ nw) :
    ∃ ms, Valid p nw ms ∧ Complete p (run p init ms) := by
  obtain ⟨ms', h1, h2⟩ := C03_extends_to_complete p nw hnw [] trivial
  exact ⟨ms', by simpa using h1, by simpa using h2⟩

/-! ## non-vacuity on a concrete program: multiplicity, a task inserted while others run, overlap of
    independent tasks (3 workers), AGAIN retries -/

def exProg : Prog :=
  [ { uid := 0, args := [(0, .rw), (1, .r)], rank := 0, kind := .user 1 },
    { uid := 1, args := [(0, .r), (0, .r), (2, .w)], rank := 1, kind := .user 2 },
    { uid := 2, args := [(0, .r)], rank := 0, kind := .user 0 },
    { uid := 3, args := [(0, .w), (0, .rw), (1, .rw)], rank := 2, kind := .user 3 },
    { uid := 4, args := [(2, .r), (1, .r)], rank := 0, kind := .user 5 } ]
def exRun : List Move :=
  [.ins, .start 0, .ins, .ins, .finish 0, .start 2, .ins, .start 1, .again 3, .finish 2, .again 3, .ins,
   .finish 1, .start 3, .finish 3, .start 4, .finish 4]

example : Valid exProg 3 exRun := firstBad_none _ _ _ _ 0 (by decide)
example : Complete exProg (run exProg init exRun) := ⟨by decide, by decide⟩
example : (run exProg init exRun).again = 2 ∧ conflict exProg 1 3 0 = true ∧ conflict exProg 1 2 0 = false := by decide
example : (run exProg init exRun).obs = (seqExec exProg).obs :=
  (C03_sequential exProg 3 exRun (firstBad_none _ _ _ _ 0 (by decide)) ⟨by decide, by decide⟩).1

end ParsecVerif.C03
