import ParsecVerif.Proofs.ZoneSim
/-!
# C28 — the zone allocator is a correct best-fit allocator

Model: `ParsecVerif.Zone` (mirrors parsec/utils/zone_malloc.c; the rb-tree is a sorted map).
One step = one API call of a client that keeps the ledger `live` of what it was handed and has
not freed.  Quantification: every zone size n ≥ 1, every unit size ≥ 1, every sequence of
`zone_malloc(size)` / `zone_free(offset)` calls (calls outside the API precondition are not issued:
they leave the state unchanged, exactly as in the harness).
-/
namespace ParsecVerif.C28
open ParsecVerif.Zone

inductive Op
  | malloc (size : Nat)
  | free (off : Nat)

def step (y : Sys) : Op → Sys
  | .malloc size => (sysMalloc y size).1
  | .free off => (sysFree y off).1

def runFrom (y : Sys) (ops : List Op) : Sys := ops.foldl step y
def run (n unit : Nat) (ops : List Op) : Sys := runFrom (sysInit n unit) ops

/-- the inductive invariant: some list of runs L tiles the zone and `Abs` relates it to the table,
    the free lists and the ledger (chain with consistent back-pointers, no two adjacent EMPTY runs,
    sorted free-list map with non-empty duplicate-free lists holding exactly the EMPTY runs by size,
    ledger = FULL runs) -/
def Inv (y : Sys) (n unit : Nat) : Prop :=
  ∃ L, Abs y.z y.live L ∧ y.z.unit = unit ∧ y.z.segs.length = n

theorem inv_init (n unit : Nat) (hn : 0 < n) : Inv (sysInit n unit) n unit :=
  ⟨[(1, n)], abs_init n unit hn, rfl, by simp [sysInit, init]; omega⟩

theorem isLive_iff (live : List (Nat × Nat)) (t : Nat) : isLive live t = true ↔ ∃ u, (t, u) ∈ live := by
  unfold isLive
  rw [List.any_eq_true]
  constructor
  · rintro ⟨⟨t', u⟩, hm, he⟩
    have : t' = t := by simpa using he
    subst this; exact ⟨u, hm⟩
  · rintro ⟨u, hm⟩; exact ⟨(t, u), hm, by simp⟩

theorem inv_step (y : Sys) (n unit : Nat) (h : Inv y n unit) (op : Op) : Inv (step y op) n unit := by
  obtain ⟨L, habs, hu, hlen⟩ := h
  cases op with
  | malloc size =>
    simp only [step, sysMalloc]
    split
    · exact ⟨L, habs, hu, hlen⟩
    · next h1 =>
        cases hm : mallocUnits y.z (reqUnits y.z.unit size) with
        | none => exact ⟨L, habs, hu, hlen⟩
        | some r =>
          obtain ⟨z', t⟩ := r
          obtain ⟨A, k, B, hL, _, _, _, hun, habs'⟩ :=
            abs_malloc y.z y.live L habs _ (by omega) z' t hm
          refine ⟨_, habs', by simpa [hun] using hu, ?_⟩
          show z'.segs.length = n
          rw [← habs'.total, ← hlen, ← habs.total]
          subst hL
          unfold afterMalloc; split <;> simp only [usum_append, usum] <;> omega
  | free off =>
    simp only [step, sysFree]
    split
    · exact ⟨L, habs, hu, hlen⟩
    · split
      · next _ hlive =>
        obtain ⟨u, hmem⟩ := (isLive_iff _ _).1 hlive
        obtain ⟨z', L', hf, hun, habs'⟩ := abs_free y.z y.live L habs _ u hmem
        rw [hf]
        refine ⟨L', habs', by simpa [hun] using hu, ?_⟩
        show z'.segs.length = n
        rw [free_length y.z z' _ hf]; exact hlen
      · split
        · exact ⟨L, habs, hu, hlen⟩
        · split <;> exact ⟨L, habs, hu, hlen⟩


theorem inv_runFrom (y : Sys) (n unit : Nat) (h : Inv y n unit) (ops : List Op) : Inv (runFrom y ops) n unit := by
  induction ops generalizing y with
  | nil => exact h
  | cons op ops ih => exact ih (step y op) (inv_step y n unit h op)

/-- **C28_inv**: the invariant holds after every history, on every zone. -/
theorem C28_inv (n unit : Nat) (hn : 0 < n) (ops : List Op) : Inv (run n unit ops) n unit :=
  inv_runFrom _ n unit (inv_init n unit hn) ops

/-- **C28_walk**: what the code's walk over the segment table (zone_in_use, zone_debug; the harness
    dump) reads is a tiling of the whole zone by runs with consistent back-pointers; its FULL runs
    are exactly the live allocations and its EMPTY runs are exactly the entries of the (sorted) free
    lists, keyed by their size. -/
theorem C28_walk (n unit : Nat) (hn : 0 < n) (ops : List Op) :
    ∃ L, walk (run n unit ops).z.segs (n + 1) 0 = runsWithPrev L 0 1 ∧ usum L = n ∧
      (∀ r ∈ L, 0 < r.2 ∧ (r.1 = 1 ∨ r.1 = 2)) ∧
      (∀ t u, (t, u) ∈ (run n unit ops).live ↔ (t, 2, u) ∈ starts L 0) ∧
      (∀ k t, t ∈ bucket (run n unit ops).z.fl k ↔ (t, 1, k) ∈ starts L 0) ∧
      Sorted (run n unit ops).z.fl ∧ (∀ k b, flFind (run n unit ops).z.fl k = some b → b ≠ [] ∧ b.Nodup) := by
  obtain ⟨L, habs, _, hlen⟩ := C28_inv n unit hn ops
  refine ⟨L, ?_, by rw [habs.total, hlen], ?_, habs.livemem, habs.flmem, habs.flok.sorted, habs.flok.good⟩
  · have := abs_walk _ _ L habs; rw [hlen] at this; exact this
  · intro r hr
    exact ⟨chain_pos _ _ _ _ habs.chain r hr, chain_status _ _ _ _ habs.chain r hr⟩

/-- successful malloc, in units -/
theorem malloc_ptr (y : Sys) (n unit : Nat) (h : Inv y n unit) (size : Nat) (y' : Sys) (off : Nat)
    (hm : sysMalloc y size = (y', .ptr off)) :
    ∃ L A k B, Abs y.z y.live L ∧ L = A ++ (1, k) :: B ∧ off = usum A * unit ∧
      0 < reqUnits unit size ∧ reqUnits unit size ≤ k ∧
      (∀ t' k', (t', 1, k') ∈ starts L 0 → reqUnits unit size ≤ k' → k ≤ k') ∧
      y'.live = (usum A, reqUnits unit size) :: y.live ∧ usum L = n := by
  obtain ⟨L, habs, hu, hlen⟩ := h
  unfold sysMalloc at hm
  rw [hu] at hm
  split at hm
  · exact absurd (congrArg Prod.snd hm) (by simp)
  · next h1 =>
      cases hmu : mallocUnits y.z (reqUnits unit size) with
      | none => rw [hmu] at hm; exact absurd (congrArg Prod.snd hm) (by simp)
      | some r =>
        obtain ⟨z', t⟩ := r
        rw [hmu] at hm
        simp only [Prod.mk.injEq, Out.ptr.injEq] at hm
        obtain ⟨A, k, B, hL, ht, hle, hmin, _, _⟩ :=
          abs_malloc y.z y.live L habs _ (by omega) z' t hmu
        refine ⟨L, A, k, B, habs, hL, by rw [← hm.2, ht], by omega, hle, hmin, ?_, by rw [habs.total, hlen]⟩
        rw [← hm.1, ht]

/-- **C28_in_zone_aligned**: a block returned by zone_malloc starts at a multiple of the unit and
    its units lie inside the zone; it is entered in the ledger with the unit count the code computed. -/
theorem C28_in_zone_aligned (n unit : Nat) (hn : 0 < n) (ops : List Op) (size : Nat) (y' : Sys) (off : Nat)
    (hm : sysMalloc (run n unit ops) size = (y', .ptr off)) :
    ∃ t, off = t * unit ∧ 0 < reqUnits unit size ∧ t + reqUnits unit size ≤ n ∧
      y'.live = (t, reqUnits unit size) :: (run n unit ops).live := by
  obtain ⟨L, A, k, B, _, hL, hoff, h0, hle, _, hlive, htot⟩ := malloc_ptr _ n unit (C28_inv n unit hn ops) size y' off hm
  refine ⟨usum A, hoff, h0, ?_, hlive⟩
  rw [hL, usum_append] at htot; simp only [usum] at htot; omega

theorem live_disjoint (y : Sys) (n unit : Nat) (h : Inv y n unit) :
    (∀ a ∈ y.live, 0 < a.2 ∧ a.1 + a.2 ≤ n) ∧
    (∀ a ∈ y.live, ∀ b ∈ y.live, a ≠ b → a.1 + a.2 ≤ b.1 ∨ b.1 + b.2 ≤ a.1) := by
  obtain ⟨L, habs, _, hlen⟩ := h
  have hpos : Pos L := chain_pos _ _ _ _ habs.chain
  constructor
  · intro a ha
    obtain ⟨t, u⟩ := a
    have hs := (habs.livemem t u).1 ha
    have := (mem_starts_bounds L 0 t 2 u hs).2
    have := mem_starts_pos L hpos 0 t 2 u hs
    have := habs.total
    simp only; omega
  · intro a ha b hb hne
    obtain ⟨t, u⟩ := a
    obtain ⟨t', u'⟩ := b
    have := starts_disjoint L hpos 0 (t, 2, u) (t', 2, u') ((habs.livemem t u).1 ha) ((habs.livemem t' u').1 hb)
      (by intro hc; apply hne; simp only [Prod.mk.injEq] at hc; rw [hc.1, hc.2.2])
    simpa using this

/-- **C28_disjoint**: after every history every live allocation lies inside the zone and any two
    live allocations are disjoint (a block just returned is live, so it overlaps no earlier one). -/
theorem C28_disjoint (n unit : Nat) (hn : 0 < n) (ops : List Op) :
    (∀ a ∈ (run n unit ops).live, 0 < a.2 ∧ a.1 + a.2 ≤ n) ∧
    (∀ a ∈ (run n unit ops).live, ∀ b ∈ (run n unit ops).live, a ≠ b → a.1 + a.2 ≤ b.1 ∨ b.1 + b.2 ≤ a.1) :=
  live_disjoint _ n unit (C28_inv n unit hn ops)

/-- a window of nb units inside the zone that meets no live allocation -/
def FreeWindow (y : Sys) (n nb : Nat) : Prop :=
  ∃ a, a + nb ≤ n ∧ ∀ e ∈ y.live, a + nb ≤ e.1 ∨ e.1 + e.2 ≤ a

/-- the outcome of zone_malloc is a pointer or NULL -/
theorem malloc_out (y : Sys) (size : Nat) : (∃ off, (sysMalloc y size).2 = .ptr off) ∨ (sysMalloc y size).2 = .null := by
  unfold sysMalloc
  split
  · exact Or.inr rfl
  · split
    · exact Or.inr rfl
    · exact Or.inl ⟨_, rfl⟩

/-- **C28_fails_only_if_no_run**: for a request of nb > 0 units zone_malloc returns NULL if and
    only if no window of nb units of the zone is free of live allocations.  (The "only if" needs the
    coalescing invariant: a free window always lies inside a single EMPTY run, which the sorted
    free-list map then finds.) -/
theorem C28_fails_only_if_no_run (n unit : Nat) (hn : 0 < n) (ops : List Op) (size : Nat)
    (hreq : 0 < reqUnits unit size) :
    (sysMalloc (run n unit ops) size).2 = .null ↔ ¬ FreeWindow (run n unit ops) n (reqUnits unit size) := by
  have hinv := C28_inv n unit hn ops
  obtain ⟨L, habs, hu, hlen⟩ := hinv
  have hpos : Pos L := chain_pos _ _ _ _ habs.chain
  constructor
  · intro hnull ⟨a, ha, hfree⟩
    have hnone : mallocUnits (run n unit ops).z (reqUnits unit size) = none := by
      unfold sysMalloc at hnull
      rw [hu] at hnull
      rw [if_neg (by rw [hlen]; omega)] at hnull
      cases hmu : mallocUnits (run n unit ops).z (reqUnits unit size) with
      | none => rfl
      | some r => rw [hmu] at hnull; exact absurd hnull (by simp)
    have hsmall := abs_malloc_none _ _ L habs _ hnone
    obtain ⟨t, k, hin, _, h2⟩ := window_in_empty L 0 hpos (chain_status _ _ _ _ habs.chain) habs.noadj a
      (reqUnits unit size) hreq (Nat.zero_le _) (by rw [Nat.zero_add, habs.total, hlen]; exact ha)
      (fun t u hm => hfree (t, u) ((habs.livemem t u).2 hm))
    have := hsmall t k hin
    have := (mem_starts_bounds L 0 t 1 k hin)
    omega
  · intro hno
    rcases malloc_out (run n unit ops) size with ⟨off, hptr⟩ | hnull
    · exfalso
      have hres : sysMalloc (run n unit ops) size = ((sysMalloc (run n unit ops) size).1, .ptr off) := by
        rw [← hptr]
      obtain ⟨L', A, k, B, habs', hL, _, _, hle, _, _, htot⟩ := malloc_ptr _ n unit ⟨L, habs, hu, hlen⟩ size _ off hres
      apply hno
      have hpos' : Pos L' := chain_pos _ _ _ _ habs'.chain
      refine ⟨usum A, by rw [hL, usum_append] at htot; simp only [usum] at htot; omega, ?_⟩
      intro e he
      obtain ⟨t, u⟩ := e
      have hs := (habs'.livemem t u).1 he
      rw [hL, mem_starts_mid] at hs
      rcases hs with hs | hs | hs
      · have := mem_starts_bounds A 0 t 2 u hs; right; simp only; omega
      · simp only [Prod.mk.injEq] at hs; exact absurd hs.2.1 (by decide)
      · have := starts_B_ge _ _ _ _ _ hs; left; simp only at this ⊢; omega
    · exact hnull

/-- **C28_best_fit**: the block is carved from the start of an EMPTY run of the walked table whose
    size is the smallest that suffices among all EMPTY runs (the EMPTY runs are the maximal free
    windows, by `C28_walk` / `C28_free_merges`). -/
theorem C28_best_fit (n unit : Nat) (hn : 0 < n) (ops : List Op) (size : Nat) (y' : Sys) (off : Nat)
    (hm : sysMalloc (run n unit ops) size = (y', .ptr off)) :
    ∃ L A k B, walk (run n unit ops).z.segs (n + 1) 0 = runsWithPrev L 0 1 ∧ L = A ++ (1, k) :: B ∧
      off = usum A * unit ∧ reqUnits unit size ≤ k ∧
      ∀ t' k', (t', 1, k') ∈ starts L 0 → reqUnits unit size ≤ k' → k ≤ k' := by
  obtain ⟨L, A, k, B, habs, hL, hoff, _, hle, hmin, _, htot⟩ := malloc_ptr _ n unit (C28_inv n unit hn ops) size y' off hm
  refine ⟨L, A, k, B, ?_, hL, hoff, hle, hmin⟩
  have := abs_walk _ _ L habs
  rw [← habs.total, htot] at this; exact this

/-- **C28_free_merges**: after every history no two consecutive runs of the walked table are both
    EMPTY: zone_free has merged every pair of adjacent free runs. -/
theorem C28_free_merges (n unit : Nat) (hn : 0 < n) (ops : List Op) :
    ∃ L, walk (run n unit ops).z.segs (n + 1) 0 = runsWithPrev L 0 1 ∧ NoAdjE L := by
  obtain ⟨L, habs, _, hlen⟩ := C28_inv n unit hn ops
  exact ⟨L, by have := abs_walk _ _ L habs; rw [hlen] at this; exact this, habs.noadj⟩

/-- **C28_in_use**: zone_in_use = unit size × the units of the live allocations. -/
theorem C28_in_use (n unit : Nat) (hn : 0 < n) (ops : List Op) :
    zoneInUse (run n unit ops).z = unit * liveUnits (run n unit ops).live := by
  obtain ⟨L, habs, hu, _⟩ := C28_inv n unit hn ops
  rw [abs_in_use _ _ L habs, hu]

/-- **C28_free_accepted**: the free of a live allocation is never refused by the code and removes
    exactly that allocation from the ledger. -/
theorem C28_free_accepted (n unit : Nat) (hn : 0 < n) (hunit : 0 < unit) (ops : List Op) (t u : Nat)
    (hl : (t, u) ∈ (run n unit ops).live) :
    ∃ z', free (run n unit ops).z t = some z' ∧
      sysFree (run n unit ops) (t * unit) = (⟨z', dropLive (run n unit ops).live t⟩, .ok) := by
  obtain ⟨L, habs, hu, _⟩ := C28_inv n unit hn ops
  obtain ⟨z', L', hf, _, _⟩ := abs_free _ _ L habs t u hl
  refine ⟨z', hf, ?_⟩
  unfold sysFree
  rw [hu, Nat.mul_mod_left, if_neg (by simp), Nat.mul_div_cancel _ hunit,
    if_pos ((isLive_iff _ _).2 ⟨u, hl⟩), hf]

/-- **C28_refused_free_noop**: when the model answers `noop` the address is one the code itself
    refuses (outside the table, or entry marked EMPTY), and nothing changes. -/
theorem C28_refused_free_noop (y : Sys) (off : Nat) (h : (sysFree y off).2 = .noop) :
    (sysFree y off).1 = y ∧ free y.z (off / y.z.unit) = none := by
  unfold sysFree at h ⊢
  split at h
  · exact absurd h (by simp)
  · split at h
    · split at h <;> exact absurd h (by simp)
    · rename_i h1 h2
      rw [if_neg h1, if_neg h2]
      unfold free
      split at h
      · exact ⟨rfl, rfl⟩
      · next sg hs =>
        split at h
        · next h3 => simp only [h3, if_true]; exact ⟨trivial, trivial⟩
        · exact absurd h (by simp)

/-- the unit count of the (repaired) code covers the request: it is the ceiling of size / unit -/
theorem reqUnits_covers (unit size : Nat) (hunit : 0 < unit) : size ≤ reqUnits unit size * unit := by
  unfold reqUnits
  have h3 := Nat.div_add_mod size unit
  have h4 := Nat.mod_lt size hunit
  rw [Nat.add_mul, Nat.mul_comm (size / unit) unit]
  split
  · omega
  · simp only [Nat.one_mul]; omega

/-- **C28_bytes**: for EVERY request size the `size` bytes of a returned block start at a multiple
    of the unit, lie inside the zone and do not meet the bytes of any live allocation.
    (Before the repair 6e3ff3b this held only below 2^31 units: `C28_truncated_request_succeeds_buggy`.) -/
theorem C28_bytes (n unit : Nat) (hn : 0 < n) (hunit : 0 < unit) (ops : List Op) (size : Nat) (y' : Sys) (off : Nat)
    (hm : sysMalloc (run n unit ops) size = (y', .ptr off)) :
    off % unit = 0 ∧ off + size ≤ n * unit ∧
      ∀ e ∈ (run n unit ops).live, off + size ≤ e.1 * unit ∨ (e.1 + e.2) * unit ≤ off := by
  obtain ⟨t, hoff, h0, hin, hlive⟩ := C28_in_zone_aligned n unit hn ops size y' off hm
  have hsz := reqUnits_covers unit size hunit
  have hmul : (t + reqUnits unit size) * unit ≤ n * unit := Nat.mul_le_mul_right _ hin
  rw [Nat.add_mul] at hmul
  refine ⟨by rw [hoff]; exact Nat.mul_mod_left _ _, by rw [hoff]; omega, ?_⟩
  intro e he
  -- the new block and e are both live afterwards, hence disjoint in units
  have hinv' : Inv y' n unit := by
    have := inv_step (run n unit ops) n unit (C28_inv n unit hn ops) (.malloc size)
    simp only [step, hm] at this; exact this
  have hd := (live_disjoint y' n unit hinv').2 (t, reqUnits unit size) (by rw [hlive]; simp) e (by rw [hlive]; simp [he])
  have hne : (t, reqUnits unit size) ≠ e := by
    intro hc
    have hnd := hinv'.choose_spec.1.livenodup
    rw [hlive, hc] at hnd
    exact (List.nodup_cons.1 hnd).1 he
  rcases hd hne with hd | hd
  · left
    have := Nat.mul_le_mul_right unit hd
    simp only [Nat.add_mul] at this
    rw [hoff]; omega
  · right
    have := Nat.mul_le_mul_right unit hd
    rw [hoff]; exact this

/-- the byte-level statement for zone_malloc as it was BEFORE the repair -/
def BytesInZoneBuggy : Prop :=
  ∀ (n unit : Nat) (ops : List Op) (size : Nat) (y' : Sys) (off : Nat), 0 < n → 0 < unit → size < 2 ^ 64 →
    sysMallocBuggy (run n unit ops) size = (y', .ptr off) → off + size ≤ n * unit

/-- **C28_truncated_request_succeeds_buggy** (finding, repaired by 6e3ff3b): with the `int` unit
    count the byte-level statement was false.  On a fresh zone of 4 units of 1 byte,
    zone_malloc(2^32 + 1) returned offset 0: 2^32 + 1 units became 1. -/
theorem C28_truncated_request_succeeds_buggy : ¬ BytesInZoneBuggy := by
  intro h
  have := h 4 1 [] 4294967297 (sysMallocBuggy (run 4 1 []) 4294967297).1 0 (by decide) (by decide) (by decide) (by decide)
  exact absurd this (by decide)

/-- the same request on the repaired code: NULL -/
theorem C28_huge_request_null : (sysMalloc (run 4 1 []) 4294967297).2 = .null := by decide

/-! ### the hypotheses are satisfiable on non-trivial states (zone of 8 units of 4 bytes) -/

/-- a history with a split, an exact fit, a free between a live block and a free run -/
def demo : List Op := [.malloc 5, .malloc 4, .malloc 9, .free 8]

example : (run 8 4 demo).live = [(3, 3), (0, 2)] ∧ (run 8 4 demo).z.fl = [(1, [2]), (2, [6])] := by decide
example : Inv (run 8 4 demo) 8 4 := C28_inv 8 4 (by decide) demo
-- C28_in_zone_aligned / C28_best_fit / C28_bytes: a successful request (2 units: the run of 2 is preferred to none smaller)
example : sysMalloc (run 8 4 demo) 7 = ((sysMalloc (run 8 4 demo) 7).1, .ptr 24) := by decide
-- best fit really chooses: a 1-unit request takes the run of 1 unit at offset 8, not the run of 2
example : (sysMalloc (run 8 4 demo) 3).2 = .ptr 8 := by decide
-- C28_fails_only_if_no_run: a request of 3 units fails although 3 units are free in total
example : 0 < reqUnits 4 12 ∧ (sysMalloc (run 8 4 demo) 12).2 = .null := by decide
-- C28_free_accepted: a live allocation; both neighbours free afterwards => double merge
example : (3, 3) ∈ (run 8 4 demo).live ∧ (run 8 4 (demo ++ [.free 0, .free 12])).z.fl = [(8, [0])] := by decide
-- C28_refused_free_noop: double free of offset 8
example : (sysFree (run 8 4 demo) 8).2 = .noop := by decide
-- C28_in_use
example : zoneInUse (run 8 4 demo).z = 20 := by decide

end ParsecVerif.C28
