"""Shared code of the DTD checks (C03, C04, C17): script generator, independent Python reference
(sequential execution in insertion order, conflict order), runner for the real harness (1..4 MPI ranks),
transcript merging, oracles.  Line formats: docs/notes/DTD.md."""
import os, sys, re, glob, time, signal, subprocess
ROOT = os.path.dirname(os.path.dirname(os.path.abspath(__file__)))
sys.path.insert(0, os.path.join(ROOT, 'lib'))
import pv

M64 = (1 << 64) - 1
MODES = {'R': 1, 'W': 2, 'RW': 3}


# ------------------------------------------------------------------ value functions (same as harness/DTD.c and Model/Dtd.lean)
def mix64(x):
    x &= M64
    x ^= x >> 30; x = (x * 0xBF58476D1CE4E5B9) & M64
    x ^= x >> 27; x = (x * 0x94D049BB133111EB) & M64
    x ^= x >> 31
    return x


def init_val(d):
    return mix64(0x1234567 + d)


def h_start(tid, body):
    return mix64((tid * 0x9E3779B97F4A7C15 + body + 1) & M64)


def h_in(h, v):
    return (mix64(h ^ v) + 0x632BE59BD9B4E019) & M64


def h_out(h, j):
    return mix64((h + j + 1) & M64)


# ------------------------------------------------------------------ scripts
class Task:
    __slots__ = ('tid', 'parent', 'aff', 'body', 'args')

    def __init__(self, tid, parent, aff, body, args):
        self.tid, self.parent, self.aff, self.body, self.args = tid, parent, aff, body, args   # args: [(d, 'R'|'W'|'RW')]

    def line(self):
        a = ' '.join('%d:%s' % (d, m) for d, m in self.args)
        head = 't %d' % self.tid if self.parent < 0 else 'c %d %d' % (self.parent, self.tid)
        return ('%s %s b%d %s' % (head, self.aff, self.body, a)).rstrip()

    def rank(self, nranks):
        if nranks == 1:
            return 0
        if self.aff[0] == 'r':
            return int(self.aff[1:]) % nranks
        return self.args[int(self.aff[1:])][0] % nranks

    def reads(self, d):
        return any(x == d and m in ('R', 'RW') for x, m in self.args)

    def writes(self, d):
        return any(x == d and m in ('W', 'RW') for x, m in self.args)


def parse_case(lines):
    """-> dict(header, nd, tasks (file order = insertion order), prog (ops incl. wait/flush), queries)"""
    c = {'nd': 0, 'tasks': [], 'prog': [], 'header': None}
    for ln in lines:
        w = ln.split()
        if not w:
            continue
        if w[0] == 'case':
            c['header'] = ln
            c['nd'] = int(w[2][2:])
        elif w[0] in ('t', 'c'):
            k = 2 if w[0] == 't' else 3
            args = []
            for a in w[k + 2:]:
                d, m = a.split(':')
                args.append((int(d), m))
            t = Task(int(w[k - 1]), -1 if w[0] == 't' else int(w[1]), w[k], int(w[k + 1][1:]), args)
            c['tasks'].append(t)
            c['prog'].append(('task', t.tid))
        elif w[0] == 'wait':
            c['prog'].append(('wait', None))
        elif w[0] == 'flush':
            c['prog'].append(('flush', int(w[1])))
        elif w[0] == 'flushall':
            c['prog'].append(('flushall', None))
    return c


def seq_exec(case):
    """The property statement, executed: run the tasks one at a time in insertion order.
    Returns (obs: tid -> [values read], final: d -> value, last_writer: d -> tid|None)."""
    val = {d: init_val(d) for d in range(case['nd'])}
    obs, lastw = {}, {d: None for d in range(case['nd'])}
    for t in case['tasks']:
        h = h_start(t.tid, t.body)
        o = []
        for d, m in t.args:
            if m in ('R', 'RW'):
                o.append(val[d])
                h = h_in(h, val[d])
        for j, (d, m) in enumerate(t.args):
            if m in ('W', 'RW'):
                val[d] = h_out(h, j)
                lastw[d] = t.tid
        obs[t.tid] = o
    return obs, val, lastw


def conflict_pairs(case):
    """(t, u, d) with t inserted before u, both use d, at least one writes."""
    res = []
    ts = case['tasks']
    for i, t in enumerate(ts):
        dt = set(d for d, _ in t.args)
        for u in ts[i + 1:]:
            for d in dt:
                if any(x == d for x, _ in u.args) and (t.writes(d) or u.writes(d)):
                    res.append((t.tid, u.tid, d))
    return res


# ------------------------------------------------------------------ generator
def gen_case(rng, k, nranks=1, ntasks=None, inserters=True, flushes=True, big=False, mult=None, waits=True, readers_heavy=False):
    """One random insertion script (list of lines, first the `case` header).
    2..6 data; R/W/RW mixes; a task has 0..4 parameters on distinct data, plus — only where the runtime supports it, see
    docs/notes/C03.md finding F2 — repeated write parameters on a datum whose chain is quiescent (`mult` = percentage for the
    unrestricted multiplicity knob used by the corpus/exploration); affinities by value (rN) or by tile (aJ);
    window in {1,2,8,default}, threshold in {default,0,1,2,4} (< window); waits, single flushes, flush_all;
    tasks inserting tasks (single rank, on tile sets the main thread leaves alone until the next wait)."""
    nd = rng.range(2, 6)
    win = rng.choice(['1', '2', '8', 'def'])
    thr = rng.choice(['def', 'def', '0', '1', '2', '4'])
    if thr != 'def' and win != 'def' and int(thr) >= int(win):
        thr = str(max(0, int(win) - 1))
    has_ins = inserters and nranks == 1 and rng.chance(1, 2)
    if has_ins:
        thr = 'def'      # a body that blocks in the sliding window waits for itself (finding F3): keep the threshold out of reach
    n = ntasks or rng.range(3, 60 if big else 28)
    mixes = [(5, 2, 3), (6, 1, 3), (2, 3, 5), (8, 1, 1), (3, 3, 3)]
    if readers_heavy:
        mixes = [(8, 1, 1), (6, 1, 2), (10, 1, 1), (5, 2, 3)]
    wr, ww, wrw = rng.choice(mixes)
    pmult = 0 if mult is None else mult
    quiet = set(range(nd))          # data whose chain is quiescent: never used, or not used since the last wait

    def mode():
        x = rng.below(wr + ww + wrw)
        return 'R' if x < wr else 'W' if x < wr + ww else 'RW'

    def mk_args(pool):
        na = rng.choice([0, 1, 1, 1, 2, 2, 2, 3, 3, 4])
        args = []
        for _ in range(na):
            if not pool:
                break
            if args and rng.below(100) < pmult:
                d = rng.choice(args)[0]
                args.append((d, mode()))
                continue
            fresh = [x for x in pool if all(x != a[0] for a in args)]
            if not fresh:
                break
            d = rng.choice(fresh)
            m = mode()
            args.append((d, m))
            if mult is None and nranks == 1 and d in quiet and m != 'R' and len(args) < 5 and rng.chance(1, 3):
                args.append((d, rng.choice(['W', 'RW'])))       # supported multiplicity: write parameters only, quiescent chain
        for d, _ in args:
            quiet.discard(d)
        return args

    def aff(args):
        if args and rng.chance(1, 3):
            return 'a%d' % rng.below(len(args))
        return 'r%d' % rng.below(nranks)

    lines = ['case %d D=%d W=%s T=%s R=%d' % (k, nd, win, thr, nranks)]
    tid = 0
    avail = list(range(nd))          # data the main thread may touch now
    busy_ins = False                 # an inserter is (possibly) running since the last wait

    def do_wait():
        nonlocal avail, busy_ins, quiet
        if nranks > 1:
            # distributed runs must flush every tile before waiting (remote last writers keep the taskpool alive)
            live = list(avail)
            for d in live:
                if rng.chance(1, 2):
                    lines.append('flush %d' % d); avail.remove(d)
            lines.append('flushall')
        lines.append('wait')
        avail = list(range(nd)); busy_ins = False; quiet = set(range(nd))

    while tid < n:
        r = rng.below(100)
        if waits and r < 4 and tid > 0:
            do_wait()
            continue
        if flushes and r < 8 and avail and not busy_ins:
            d = rng.choice(avail)
            lines.append('flush %d' % d); avail.remove(d)
            continue
        if flushes and nranks == 1 and r < 9 and not busy_ins and len(avail) == nd:
            lines.append('flushall'); avail = []
            continue
        if not avail:
            do_wait()
            continue
        if has_ins and r < 18:
            # a task that inserts tasks: its children use only the group G, which the main thread leaves alone until the next wait
            g = [d for d in avail if rng.chance(1, 2)] or [rng.choice(avail)]
            args = mk_args(g)
            par = tid
            lines.append(Task(par, -1, aff(args), rng.below(8), args).line()); tid += 1
            sub = list(g)
            for _ in range(rng.range(1, 4)):
                if not sub:
                    break
                a2 = mk_args(sub)
                cid = tid
                lines.append(Task(cid, par, aff(a2), rng.below(8), a2).line()); tid += 1
                if rng.chance(1, 4):      # nested inserter on a sub-group
                    g2 = [d for d in sub if rng.chance(1, 2)] or [rng.choice(sub)]
                    for _ in range(rng.range(1, 2)):
                        a3 = mk_args(g2)
                        lines.append(Task(tid, cid, aff(a3), rng.below(8), a3).line()); tid += 1
                    sub = [d for d in sub if d not in g2]
            avail = [d for d in avail if d not in g]
            busy_ins = True
            continue
        args = mk_args(avail)
        lines.append(Task(tid, -1, aff(args), rng.below(8), args).line()); tid += 1
    if busy_ins:
        lines.append('wait')
    return lines


def use_task_classes(lines):
    """the same script with every task inserted through the task-class API (body ids >= 100: parsec_dtd_create_task_class +
    parsec_dtd_task_class_add_chore + parsec_dtd_insert_task_with_task_class, the parsec_dtd_cpu_task_submit path that bumps
    data-copy versions); the bodies compute the same function of (task id, body id, values read)"""
    return [re.sub(r' b(\d+)', lambda m: ' b%d' % (100 + int(m.group(1))), ln) if ln.startswith(('t ', 'c ')) else ln for ln in lines]


def queries(case):
    return ['run'] + ['obs %d' % t.tid for t in case['tasks']] + ['val %d' % d for d in range(case['nd'])] + ['trace']


# ------------------------------------------------------------------ running the real harness
def sh_group(cmd, timeout, env=None):
    """Like pv.sh but the command runs in its own process group which is killed as a whole on timeout
    (mpiexec leaves orphan ranks spinning otherwise).  Returns (rc, stdout, stderr); rc 124 = timeout."""
    e = dict(os.environ)
    if env:
        e.update(env)
    p = subprocess.Popen(cmd, stdout=subprocess.PIPE, stderr=subprocess.PIPE, text=True, errors='replace', env=e, start_new_session=True)
    try:
        o, er = p.communicate(timeout=timeout)
        return p.returncode, o, er
    except subprocess.TimeoutExpired:
        try:
            os.killpg(p.pid, signal.SIGKILL)
        except ProcessLookupError:
            pass
        try:
            o, er = p.communicate(timeout=10)
        except Exception:
            o, er = '', ''
        return 124, o or '', (er or '') + '\n[timeout after %ss]' % timeout


SCHEDS = ['lfq', 'ap', 'rnd', 'll', 'gd', 'ltq', 'lhq', 'pbq', 'spq', 'ip']


_startup = {}


def startup_time(exe, nranks):
    """wall time of an empty run (MPI_Init + parsec_init + fini): the unit the time-outs are scaled by, so that a loaded
    machine does not turn slow starts into reported hangs"""
    if (exe, nranks) not in _startup:
        cmd = [exe, '-i', '/dev/null', '-c', '2']
        if nranks > 1:
            cmd = ['mpiexec', '--oversubscribe', '-n', str(nranks)] + cmd
        t0 = time.time()
        sh_group(cmd, 600, env=dict(pv.MPI_ENV))
        _startup[(exe, nranks)] = time.time() - t0
    return _startup[(exe, nranks)]


def run_real(exe, cases, work, tag, nranks=1, cores=4, sched='lfq', timeout=120, spin=None, confirm=True, startup_factor=6):
    """cases: list of line lists (each starting with its `case` line, WITHOUT queries).  Runs them all in one
    process (group); on a hang/crash the remaining cases are re-run in a new process.  A time-out is confirmed by running the
    case alone with a much longer limit (and the harness watchdog on) before it is reported as a hang.
    Returns list of per-case dict: {lines (with queries), impl: {op: result}, iv: {tid: (b,e,th,rank)}, stats, viols, status}"""
    results = []
    todo = list(range(len(cases)))
    full = [list(c) + queries(parse_case(c)) for c in cases]
    rounds = [0]

    def one_round(idxs, limit, watchdog=0):
        rounds[0] += 1
        script = os.path.join(work, '%s.r%d.in' % (tag, rounds[0]))
        with open(script, 'w') as f:
            for i in idxs:
                f.write('\n'.join(full[i]) + '\n')
        outp = os.path.join(work, '%s.r%d.out' % (tag, rounds[0]))
        for fn in glob.glob(outp + '.*'):
            os.remove(fn)
        env = dict(pv.MPI_ENV)
        env['PARSEC_MCA_mca_sched'] = sched
        if spin is not None:
            env['VERIF_DTD_SPIN'] = str(spin)
        cmd = [exe, '-i', script, '-o', outp, '-c', str(cores)] + (['-w', str(watchdog)] if watchdog else [])
        if nranks > 1:
            cmd = ['mpiexec', '--oversubscribe', '-n', str(nranks), '-x', 'PARSEC_MCA_mca_sched'] + (['-x', 'VERIF_DTD_SPIN'] if spin is not None else []) + cmd
        rc, so, se = sh_group(cmd, limit, env=env)
        per_rank = []
        for r in range(nranks):
            try:
                per_rank.append(open(outp + '.%d' % r).read())
            except OSError:
                per_rank.append('')
        return rc, se, merge(per_rank, [full[i] for i in idxs], nranks), per_rank

    while todo:
        rc, se, done_here, _ = one_round(todo, timeout + 0.3 * len(todo) + startup_factor * startup_time(exe, nranks))
        ncomplete = 0
        for j, i in enumerate(todo):
            r = done_here[j]
            if r['status'] == 'complete':
                ncomplete += 1
                results.append((i, r))
            else:
                break
        if ncomplete < len(todo):
            i = todo[ncomplete]
            r = done_here[ncomplete]
            r['status'] = 'hang' if rc == 124 else 'crash rc=%s' % rc
            r['stderr'] = (se or '')[-1500:]
            if rc == 124 and confirm and not any(x['status'].startswith('hang') for _, x in results):
                # confirm alone, with a generous limit: a loaded machine must not look like a hang
                long = 3 * timeout + 10 * startup_time(exe, nranks)
                rc2, se2, again, per_rank = one_round([i], long, watchdog=max(10, int(long * 0.6)))
                r2 = again[0]
                if r2['status'] == 'complete':
                    r = r2
                    r['slow'] = True
                else:
                    r2['status'] = 'hang' if rc2 == 124 else 'crash rc=%s' % rc2
                    r2['stderr'] = (se2 or '')[-800:] + ' | ' + ' | '.join(l for t in per_rank for l in t.splitlines() if l.startswith('#hang'))[:1500]
                    r = r2
            results.append((i, r))
            todo = todo[ncomplete + 1:]
            nbad = sum(1 for _, x in results if x['status'] != 'complete')
            if nbad >= 2 and todo:
                # the runtime is badly broken for this configuration: do not spend a time-out on every remaining script
                for i2 in todo:
                    results.append((i2, {'status': 'not-run', 'impl': {}, 'iv': {}, 'stats': {}, 'viols': [], 'multi': []}))
                todo = []
        else:
            todo = []
            if rc != 0:
                results[-1][1]['exit_problem'] = 'rc=%s %s' % (rc, (se or '')[-600:])
    results.sort(key=lambda x: x[0])
    out = [r for _, r in results]
    for i, r in enumerate(out):
        r['lines'] = full[i]
        r['config'] = {'nranks': nranks, 'cores': cores, 'sched': sched}
    return out


def merge(per_rank_text, fulls, nranks):
    """Split each rank's transcript by case and merge: op -> result (the unique non '-' answer among ranks)."""
    ncases = len(fulls)
    per = [[] for _ in range(ncases)]        # per case: list over ranks of (ops dict, iv, stats, viols, complete)
    for r, text in enumerate(per_rank_text):
        idx = -1
        cur = None
        for ln in text.splitlines():
            if ln.startswith('case '):
                idx += 1
                cur = {'res': {}, 'iv': {}, 'stats': {}, 'viols': [], 'nres': 0}
                if idx < ncases:
                    per[idx].append(cur)
            if cur is None or idx >= ncases:
                continue
            if ln.startswith('!viol'):
                cur['viols'].append(ln[5:].strip())
            elif ln.startswith('#iv'):
                w = ln.split()
                cur['iv'][int(w[2])] = (int(w[3]), int(w[4]), int(w[5]), r)
            elif ln.startswith('#stat'):
                w = ln.split()
                cur['stats'][w[1]] = cur['stats'].get(w[1], 0) + int(w[2])
            elif ' => ' in ln:
                a, b = ln.split(' => ', 1)
                cur['res'].setdefault(a.strip(), []).append(b.strip())
                cur['nres'] += 1
    out = []
    for i in range(ncases):
        want = len(fulls[i])
        ranks = per[i]
        complete = len(ranks) == nranks and all(x['nres'] >= want for x in ranks)
        impl, iv, stats, viols, multi = {}, {}, {}, [], []
        for x in ranks:
            for op, rs in x['res'].items():
                for b in rs:
                    if b == '-':
                        impl.setdefault(op, '-')
                    elif op in impl and impl[op] not in ('-', b):
                        multi.append((op, impl[op], b))
                    elif op.startswith('obs') and impl.get(op, '-') != '-':
                        multi.append((op, impl[op], b))
                    else:
                        impl[op] = b
            for t, v in x['iv'].items():
                if t in iv:
                    multi.append(('iv %d' % t, iv[t], v))
                iv[t] = v
            for k2, v in x['stats'].items():
                stats[k2] = stats.get(k2, 0) + v
            viols += x['viols']
        out.append({'status': 'complete' if complete else 'incomplete', 'impl': impl, 'iv': iv, 'stats': stats, 'viols': viols, 'multi': multi})
    return out


# ------------------------------------------------------------------ oracles on the implementation's outputs
def fmt_obs(o):
    return '[' + ' '.join(str(v) for v in o) + ']'


def oracle_values(case, r, check_final=True):
    """C03: every task observed the sequential values; final data values are the sequential ones."""
    obs, val, _ = seq_exec(case)
    fails = []
    for t in case['tasks']:
        got = r['impl'].get('obs %d' % t.tid, '<missing>')
        if got != fmt_obs(obs[t.tid]):
            fails.append('task %d observed %s, sequential execution gives %s' % (t.tid, got, fmt_obs(obs[t.tid])))
    if check_final:
        for d in range(case['nd']):
            got = r['impl'].get('val %d' % d, '<missing>')
            if got != str(val[d]):
                fails.append('datum %d finally holds %s in its owner\'s copy, sequential execution gives %s' % (d, got, val[d]))
    for m in r['multi']:
        fails.append('several ranks answered for %s: %s / %s (task executed on more than one rank?)' % m)
    return fails


def oracle_intervals(case, r):
    """C04 on the real intervals: for every conflicting pair t<u run by the same process, t ended before u began
    (covers: no two conflicting tasks overlap; a writer does not start before an earlier reader has finished).
    On several ranks a version that went through a writer placed on another rank comes back in a fresh buffer, so a
    reader t and a later writer u of the same process use the same buffer (and must be ordered) only if the first writer
    inserted after t is placed on their rank; writer-before-later-access pairs are always ordered (data flow)."""
    fails = []
    iv = r['iv']
    nranks = r['config']['nranks'] if 'config' in r else 1
    npairs = 0
    ts = case['tasks']
    for t, u, d in conflict_pairs(case):
        if t in iv and u in iv and iv[t][3] == iv[u][3]:
            if nranks > 1 and not ts[t].writes(d):
                nxt = next((x for x in ts[t + 1:] if x.writes(d)), None)
                if nxt is None or nxt.rank(nranks) != ts[t].rank(nranks):
                    continue
            npairs += 1
            if not iv[t][1] < iv[u][0]:
                uu = ts[u]
                kind = 'writer' if uu.writes(d) else 'reader'
                fails.append('datum %d: task %d (%s, inserted later) began at stamp %d, before the earlier conflicting task %d ended (stamps %d..%d)' % (
                    d, u, kind, iv[u][0], t, iv[t][0], iv[t][1]))
    return fails, npairs


def readers_overlapped(case, r):
    """number of pairs of tasks whose intervals overlap in the real run and that share a datum both only read"""
    iv = r['iv']
    n = 0
    ts = case['tasks']
    for i, t in enumerate(ts):
        for u in ts[i + 1:]:
            if t.tid in iv and u.tid in iv and iv[t.tid][3] == iv[u.tid][3]:
                a, b = iv[t.tid], iv[u.tid]
                if a[0] < b[1] and b[0] < a[1]:
                    if any(t.reads(d) and u.reads(d) and not t.writes(d) and not u.writes(d) for d, _ in t.args):
                        n += 1
    return n


def oracle_flush(case, r, nranks):
    """C17: after the flush (all data are flushed by the final flush_all) and the wait, the owner's copy of every datum holds
    the value written by the last inserted writer, whichever rank ran it."""
    _, val, lastw = seq_exec(case)
    fails = []
    for d in range(case['nd']):
        got = r['impl'].get('val %d' % d, '<missing>')
        if got != str(val[d]):
            lw = lastw[d]
            where = 'no writer (initial value)' if lw is None else 'last writer task %d on rank %d' % (lw, case['tasks'][lw].rank(nranks))
            fails.append('datum %d (owner rank %d, %s): owner copy holds %s after flush+wait, expected %s' % (d, d % nranks, where, got, val[d]))
    return fails


def load_corpus(prop):
    cs = []
    d = os.path.join(ROOT, 'corpus', prop)
    if os.path.isdir(d):
        for f in sorted(os.listdir(d)):
            if f.endswith('.case'):
                cs.append((f, [l.strip() for l in open(os.path.join(d, f)) if l.strip() and not l.startswith('#')]))
    return cs


def renumber(lines):
    """Make a (sub)list of script lines well-formed again: consecutive tids in file order, children of removed parents dropped,
    the header kept.  Used by the shrinker."""
    out, mp = [], {}
    for ln in lines:
        w = ln.split()
        if w[0] == 't':
            mp[int(w[1])] = len(mp)
            out.append(' '.join(['t', str(mp[int(w[1])])] + w[2:]))
        elif w[0] == 'c':
            if int(w[1]) not in mp:
                continue
            mp[int(w[2])] = len(mp)
            out.append(' '.join(['c', str(mp[int(w[1])]), str(mp[int(w[2])])] + w[3:]))
        else:
            out.append(ln)
    return out


def shrink(lines, failing, max_tests=60):
    """ddmin over the non-header lines; failing(list of lines incl. header) -> bool"""
    head, rest = lines[0], lines[1:]
    small = pv.ddmin(rest, lambda sub: failing(renumber([head] + sub)), max_tests=max_tests)
    return renumber([head] + small)


# ------------------------------------------------------------------ engine shared by checks/C03.py, C04.py, C17.py
def corpus_cfg(lines_with_comments):
    """first line `#cfg nranks=1 cores=4 sched=lfq reps=3 expect=ok|finding:<key>`"""
    cfg = {'nranks': 1, 'cores': 4, 'sched': 'lfq', 'reps': 2, 'expect': 'ok', 'timeout': 30}
    for ln in lines_with_comments:
        if ln.startswith('#cfg'):
            for kv in ln.split()[1:]:
                k, v = kv.split('=', 1)
                cfg[k] = int(v) if v.isdigit() else v
    return cfg


def load_corpus_cfg(prop):
    out = []
    d = os.path.join(ROOT, 'corpus', prop)
    if os.path.isdir(d):
        for f in sorted(os.listdir(d)):
            if f.endswith('.case'):
                raw = [l.rstrip('\n') for l in open(os.path.join(d, f))]
                out.append((f, corpus_cfg(raw), [l.strip() for l in raw if l.strip() and not l.startswith('#')]))
    return out


def driver_lines(r):
    """the ops as the harness printed them (the `trace` op carries the real events)"""
    out = []
    for ln in r['lines']:
        if ln == 'trace':
            tr = [op for op in r['impl'] if op.startswith('trace')]
            out.append(tr[0] if tr else 'trace')
        else:
            out.append(ln)
    return out


def compare_with_model(ctx, res, results):
    """feed the ops of all complete cases to pv_DTD and compare line by line.  Returns number of accepted traces."""
    if not ctx.driver_ok:
        if 'model driver unavailable: correspondence not run, oracle only' not in res.notes:
            res.notes.append('model driver unavailable: correspondence not run, oracle only')
        return 0
    ops, idx = [], []
    for k, r in enumerate(results):
        if r['status'] != 'complete' or r.get('known_finding'):
            continue
        dl = driver_lines(r)
        idx.append((k, len(ops), len(dl)))
        ops += dl
    if not ops:
        return 0
    rc, model, err = pv.run_driver('pv_DTD', ops, timeout=600)
    if rc != 0:
        res.disagreements.append({'op': '<driver>', 'impl': '', 'model': 'driver exit %d: %s' % (rc, err[-300:])})
    acc = 0
    for k, lo, n in idx:
        r = results[k]
        dl = ops[lo:lo + n]
        r['model'] = {}
        for j, op in enumerate(dl):
            m = model[lo + j] if lo + j < len(model) else '<missing>'
            im = r['impl'].get(op, '<missing>')
            r['model'][op] = m
            if op.startswith('trace') and m == 'accepted' and im == 'accepted':
                acc += 1
            if im != m and len(res.disagreements) < 40:
                res.disagreements.append({'case': r['lines'][0], 'config': r['config'], 'op': op[:300], 'impl': im, 'model': m,
                                          'script': [l for l in r['lines'] if not l.startswith(('obs', 'val', 'run', 'trace'))]})
    return acc


def script_of(r):
    return [l for l in r['lines'] if not l.startswith(('obs', 'val', 'run', 'trace'))]


def case_key(r):
    return ' ; '.join(script_of(r)[1:])


def nontrivial(case):
    return len(case['tasks']) >= 2 and len(conflict_pairs(case)) >= 1


def histo(cases_parsed):
    h = {'tasks': 0, 'inserted_through_task_class_api': 0, 'R': 0, 'W': 0, 'RW': 0, 'args_with_repeated_datum': 0, 'inserted_by_tasks': 0, 'wait': 0, 'flush': 0, 'flushall': 0,
         'conflict_pairs': 0}
    for c in cases_parsed:
        h['tasks'] += len(c['tasks'])
        for t in c['tasks']:
            seen = set()
            for d, m in t.args:
                h[m] += 1
                if d in seen:
                    h['args_with_repeated_datum'] += 1
                seen.add(d)
            if t.parent >= 0:
                h['inserted_by_tasks'] += 1
            if t.body >= 100:
                h['inserted_through_task_class_api'] += 1
        for k, _ in c['prog']:
            if k in h:
                h[k] += 1
        h['conflict_pairs'] += len(conflict_pairs(c))
    return h


def known_shape(case_lines, nranks):
    """Shapes of scripts for which a defect of the runtime is recorded (docs/notes/C03.md): returns 'F2' if some task uses a datum in
    several parameters outside the supported pattern (write parameters only, chain quiescent, one rank), 'F3' if a task inserts
    tasks while an explicit sliding-window threshold is set, else None."""
    case = parse_case(case_lines)
    hdr = case_lines[0].split()
    if any(t.parent >= 0 for t in case['tasks']) and hdr[4] != 'T=def':
        return 'F3'
    quiet = set(range(case['nd']))
    tasks = {t.tid: t for t in case['tasks']}
    for kind, arg in case['prog']:
        if kind == 'wait':
            quiet = set(range(case['nd']))
        elif kind == 'task':
            t = tasks[arg]
            ds = [d for d, _ in t.args]
            for d in set(ds):
                if ds.count(d) > 1:
                    if nranks > 1 or d not in quiet or any(m == 'R' for x, m in t.args if x == d):
                        return 'F2'
            for d in ds:
                quiet.discard(d)
    return None


def finding_key(shape, r, fails):
    """stable key of a recorded finding for a failing script of a known shape"""
    if shape == 'F3':
        return 'F3-task-inserting-task-blocks-in-window-forever' if r['status'].startswith('hang') else None
    if shape == 'F2':
        if r['status'].startswith('hang'):
            return 'F2b-same-datum-in-several-parameters-hang'
        if r['status'].startswith('crash'):
            return 'F2d-same-datum-in-several-parameters-crash'
        if any('NULL' in f for f in fails) or any('NULL' in v for v in r['viols']):
            return 'F2a-same-datum-in-several-parameters-null-argument'
        return 'F2c-same-datum-in-several-parameters-wrong-values-or-order'
    return None


def gen_shape_case(rng, k, kind):
    """scripts of the recorded-finding shapes (bounded: a few short ones per run, so that the KNOWN-FINDING lines keep appearing)"""
    if kind == 'F3':
        d = rng.below(2)
        return ['case %d D=2 W=%d T=%d R=1' % (k, rng.choice([1, 2]), rng.below(2)),
                't 0 r0 b%d %d:RW' % (rng.below(4), d), 'c 0 1 r0 b%d %d:%s' % (rng.below(4), d, rng.choice(['R', 'RW'])),
                'c 0 2 r0 b0 %d:R' % (1 - d)]
    lines = gen_case(rng, k, nranks=1, ntasks=rng.range(3, 6), inserters=False, flushes=False, waits=False, mult=60)
    return lines


def status_violation(r, prop):
    """a hang or crash of the real program is a result"""
    if r['status'] == 'complete':
        return None
    kind = r['status'].split()[0]
    return {'key': '%s:%s:%s' % (kind, cfg_str(r['config']), case_key(r)), 'what': 'the real DTD program did not finish (%s) with %s; stderr: %s' % (
        r['status'], cfg_str(r['config']), r.get('stderr', '')[-400:]), 'case': script_of(r), 'config': r['config']}


def cfg_str(c):
    return 'ranks=%d,threads=%d,sched=%s' % (c['nranks'], c['cores'], c['sched'])


def run_property(ctx, res, prop, groups, oracle, only=None, rule='', spin=None):
    """Common body of the three checks.
    groups: list of dicts {nranks, cores, sched, n, gen: kwargs for gen_case, timeout}
    oracle(case, result) -> list of failure texts (the property itself, evaluated on the implementation's outputs)."""
    exe = ctx.path('DTD')
    ok, log = pv.cc_harness(os.path.join(ROOT, 'harness', 'DTD.c'), exe, ctx.build)
    if not ok:
        res.infra_errors.append('harness compile failed: ' + log[-1500:])
        return
    salt = sum(ord(c) for c in prop)
    rng = pv.Rng(ctx.seed * 7919 + salt)
    all_results, parsed, stats = [], [], {}
    skipped = [0]

    def failures(r):
        case = parse_case(r['lines'])
        return oracle(case, r)

    def handle(results):
        for r in results:
            case = parse_case(r['lines'])
            parsed.append(case)
            res.evaluations += 1
            for k2, v in r['stats'].items():
                stats[k2] = stats.get(k2, 0) + v
            if r['status'] == 'not-run':
                res.evaluations -= 1
                skipped[0] += 1
                continue
            shape = known_shape(script_of(r), r['config']['nranks'])
            sv = status_violation(r, prop)
            fails = [] if sv else oracle(case, r)
            if shape and (sv or fails):
                fk = finding_key(shape, r, fails)
                if fk:
                    r['known_finding'] = fk      # the same failure would show up again as a model/implementation disagreement
                    if not any(v['key'] == fk for v in res.violations):
                        res.violations.append({'key': fk, 'what': 'script of the recorded shape %s (%s): %s' % (shape, cfg_str(r['config']), sv['what'][:200] if sv else fails[0]),
                                               'case': script_of(r), 'config': r['config']})
                    continue
            if sv:
                # a crash / hang of a multi-rank launch that does not reproduce in 3 more launches of the same script is
                # recorded in the evidence (res.notes), not reported: oversubscribed mpiexec launches are not perfectly reliable
                if r['config']['nranks'] > 1 and not r.get('is_rerun'):
                    again = []
                    for _k in range(3):
                        rr = run_real(exe, [r['lines']], ctx.run_dir, 'rerun', nranks=r['config']['nranks'], cores=r['config']['cores'],
                                      sched=r['config']['sched'], timeout=120, spin=spin)
                        again += [x for x in rr if status_violation(x, prop)]
                    if not again:
                        res.notes.append('unreproduced %s (0 of 3 re-launches): %s' % (sv['key'][:160], sv['what'][:200]))
                        res.extra['unreproduced_launch_failures'] = res.extra.get('unreproduced_launch_failures', 0) + 1
                        continue
                res.violations.append(sv)
                continue
            if fails:
                res.violations.append({'key': 'oracle:%s:%s' % (cfg_str(r['config']), case_key(r)), 'what': fails[0], 'all': fails[:6],
                                       'case': script_of(r), 'config': r['config']})
            if nontrivial(case):
                res.nontrivial(cfg_str(r['config']) + '|' + case_key(r))
        res.traces_validated += compare_with_model(ctx, res, results)
        all_results.extend(results)

    if only is not None:
        for cfg, lines in only:
            handle(run_real(exe, [lines], ctx.run_dir, 'replay', nranks=cfg['nranks'], cores=cfg['cores'], sched=cfg['sched'], timeout=60, spin=spin))
    else:
        # corpus first (the `reps` repetitions of a case run in one process)
        for name, cfg, lines in load_corpus_cfg(prop):
            finding = cfg['expect'] != 'ok'
            rs = run_real(exe, [lines] * cfg['reps'], ctx.run_dir, 'corpus-' + name, nranks=cfg['nranks'], cores=cfg['cores'], sched=cfg['sched'],
                          timeout=cfg['timeout'], spin=spin, confirm=not finding, startup_factor=2 if finding else 6)
            if not finding:
                handle(rs)
                continue
            # a recorded finding: the failure is reported under its stable key (KNOWN-FINDING when listed in known_findings.json)
            key = cfg['expect'].split(':', 1)[1]
            for r in rs:
                res.evaluations += 1
                fl = [r['status']] if r['status'] != 'complete' else failures(r)
                if fl:
                    res.violations.append({'key': key, 'what': 'corpus/%s/%s (%s): %s' % (prop, name, cfg_str(r['config']), fl[0]),
                                           'case': script_of(r), 'config': r['config']})
                    break
        k = 0
        for gi, g in enumerate(groups):
            if sum(1 for v in res.violations if v.get('key', '').startswith(('oracle:', 'hang:', 'crash:'))) >= 12 or \
                    sum(1 for v in res.violations if v.get('key', '').startswith(('hang:', 'crash:'))) >= 4:
                res.notes.append('stopped after %d of %d groups: enough failing inputs' % (gi, len(groups)))
                break
            kw = dict(g.get('gen', {}))
            if 'shape' in g:
                cases = [gen_shape_case(rng.fork(k + i), k + i, g['shape']) for i in range(g['n'])]
                k += g['n']
                handle(run_real(exe, cases, ctx.run_dir, 'g%d' % gi, nranks=1, cores=g['cores'], sched=g['sched'], timeout=g['timeout'], spin=spin,
                                confirm=False, startup_factor=2))
                continue
            tcapi = kw.pop('tcapi', False)
            cases = [gen_case(rng.fork(k + i), k + i, nranks=g['nranks'], **kw) for i in range(g['n'])]
            if tcapi:       # every other script goes through the task-class insertion API
                cases = [use_task_classes(c) if i % 2 == 0 else c for i, c in enumerate(cases)]
            k += g['n']
            handle(run_real(exe, cases, ctx.run_dir, 'g%d' % gi, nranks=g['nranks'], cores=g['cores'], sched=g['sched'], timeout=g['timeout'], spin=spin))
        # shrink the first failing generated case (same configuration, real code only)
        gen_viol = [v for v in res.violations if v.get('key', '').startswith(('oracle:', 'hang:', 'crash:')) and 'config' in v]
        if gen_viol:
            v = gen_viol[0]
            c = v['config']

            def failing(lines):
                for _ in range(2):
                    r = run_real(exe, [lines], ctx.run_dir, 'shrink', nranks=c['nranks'], cores=c['cores'], sched=c['sched'],
                                 timeout=10 if c['nranks'] == 1 else 40, spin=spin)[0]
                    if r['status'] != 'complete' or oracle(parse_case(r['lines']), r):
                        return True
                return False
            try:
                v['minimised'] = shrink(v['case'], failing, max_tests=30 if c['nranks'] == 1 else 10)
            except Exception as ex:   # shrinking is best effort
                v['minimised'] = 'shrink failed: %r' % ex
    res.rule = rule
    res.samples = [{'config': r['config'], 'script': script_of(r), 'observed': {k2: v for k2, v in list(r['impl'].items()) if k2.startswith(('obs', 'val', 'trace'))}}
                   for r in all_results[-2:]] + [{'config': r['config'], 'script': script_of(r)} for r in all_results[:1]]
    h = histo(parsed)
    h.update({'again_returns_seen': stats.get('again_returns', 0), 'reader_overlaps_seen_by_bodies': stats.get('rr_overlap_seen', 0),
              'runs_by_ranks': {str(n): sum(1 for r in all_results if r['config']['nranks'] == n) for n in (1, 2, 3, 4)},
              'schedulers': sorted(set(r['config']['sched'] for r in all_results)), 'threads': sorted(set(r['config']['cores'] for r in all_results)),
              'windows': sorted(set(r['lines'][0].split()[3] for r in all_results)),
              'startup_seconds': {str(k2[1]): round(v, 1) for k2, v in _startup.items()}})
    res.extra['input_distribution'] = h
    res.extra['inconclusive'] = skipped[0]
    return all_results


def replay_items(data):
    only = []
    for v in data.get('violations', []) + data.get('disagreements', []):
        lines = v.get('minimised') if isinstance(v.get('minimised'), list) else (v.get('case') or v.get('script'))
        if isinstance(lines, list) and 'config' in v:
            only.append((v['config'], lines))
    return only or None
