"""Seeded generator of PTG (JDF) programs for the multi-process checks (C05): programs whose results are defined
independently of the number of processes, built from `ptg_gen.Program` values (same JDF emitter, same serialisation).

Discipline (PaRSEC hands a task the producer's copy itself, so a program that is to compute the same values on any number of
processes must obey it; all of it holds by construction here):
  * a datum that is modified (RW flow) has exactly one consumer; READ flows only forward to READ flows;
  * RW flows take their input from a task (never NEW: uninitialised, never the collection: modified in place);
  * tiles 0..11 of the collection are only read, tiles 12.. are only written, each by one task instance (`-> ddesc(place)`);
  * WRITE flows start from NEW and are written by the body before anybody reads them.

Skeleton: three classes over G0+1 rows and G1+1 columns,
    SRC(i)  ->  MID(i, j)  ->  SNK(i)            (class index order = a topological order)
with optional flows (the knobs, all random): a broadcast A of SRC(i) to all / the first / the even MID(i, *), a second
broadcast of the same output to the MIDs of the next row, a guarded output B to one MID or to a suffix of the row and/or to
SNK(i), a tile R read from the collection and forwarded, a WRITE flow that seeds an RW chain along j ending in SNK(i) which
stores it into the collection, CTL edges SRC -> MID, a CTL gather MID(i, *) -> SNK(i), a WRITE flow MID -> SNK, CTL / data
chains along i inside SRC and SNK.  A SRC task therefore has up to five outputs with DIFFERENT destination rank sets, which
is what the collective activation (C13) and the rank-invariance property (C05) are about.

Placement: every class is placed by an affine expression of its parameters; the owner of a tile is given by a
distribution table over the NT tiles (`dist_table`): 2D block-cyclic over a P x Q process grid, tabular (random table),
hash of the index, or cyclic."""
import ptg_gen
from ptg_gen import C, V, G, add, sub, mul, Program

NT = 24          # tiles of the collection (4 x 6 tile matrix, column major)
RD = 12          # tiles 0..RD-1 are read-only, RD.. are written


def dep(g, t, f=None):
    return {'g': g, 't': t, 'f': f}


def rng_local(name, hi):
    return {'kind': 'R', 'name': name, 'param': True, 'lo': C(0), 'hi': hi, 'step': C(1)}


def gen_dist_program(rng, name):
    k = {  # knobs
        'R': rng.chance(1, 2), 'Rfwd': rng.chance(1, 2),
        'A': rng.choice(['full', 'full', 'first', 'even', None]), 'A2': rng.chance(1, 3),
        'B': rng.choice([None, 'mid', 'snk', 'both', 'suffix', 'both']),
        'Bg': rng.choice([None, 'even', 'last', None]),
        'chain': rng.chance(2, 3), 'K': rng.choice([None, 'all', 'one']), 'gather': rng.chance(1, 2),
        'Y': rng.chance(1, 2), 'S': rng.choice([None, 'ctl', 'data']), 'Z': rng.chance(1, 3),
        'jb': rng.choice(['0', 'G1']), 'jy': rng.choice(['0', 'G1']), 'jr': rng.choice(['0', 'G1']),
        'alt': rng.choice(['null', 'mem']),
    }
    if k['A'] is None and k['B'] is None and not k['chain']:
        k['A'] = 'full'
    I, J = G(0), G(1)
    jx = lambda s: C(0) if s == '0' else J
    a0, b0 = rng.choice([1, 2, 3]), rng.below(4)
    a1, c1, b1 = rng.choice([1, 2, 3]), rng.choice([1, 3, 5]), rng.below(4)
    b2 = rng.below(3)
    src = {'name': 'SRC', 'locals': [rng_local('i0', I)], 'flows': [], 'prio': None, 'from': None, 'extra': False,
           'place': ('%', add(mul(C(a0), V(0)), C(b0)), C(RD))}
    mid = {'name': 'MID', 'locals': [rng_local('i1', I), rng_local('j1', J)], 'flows': [], 'prio': None, 'from': None, 'extra': False,
           'place': ('%', add(add(mul(C(a1), V(0)), mul(C(c1), V(1))), C(b1)), C(RD))}
    snk = {'name': 'SNK', 'locals': [rng_local('i2', I)], 'flows': [], 'prio': None, 'from': None, 'extra': False,
           'place': add(add(V(0), C(b2)), C(RD))}
    SRC, MID, SNK = 0, 1, 2

    def flow(cls, acc, nm):
        f = {'acc': acc, 'name': nm, 'ins': [], 'outs': []}
        cls['flows'].append(f)
        return f, len(cls['flows']) - 1

    alt_t = ('null',) if k['alt'] == 'null' else ('m', None)
    i, j = V(0), V(1)
    # ---- tile R read by SRC(i), forwarded to MID(i, jr)
    if k['R']:
        fR, iR = flow(src, 'R', 'R')
        fR['ins'].append(dep(None, ('m', None)))
        if k['Rfwd']:
            f2, i2 = flow(mid, 'R', 'R2')
            f2['ins'].append(dep(('==', j, jx(k['jr'])), ('t', SRC, iR, [('a', i)]), ('null',)))
            fR['outs'].append(dep(None, ('t', MID, i2, [('a', i), ('a', jx(k['jr']))])))
    # ---- broadcast A
    if k['A']:
        fA, iA = flow(src, 'W', 'A')
        fA['ins'].append(dep(None, ('new',)))
        fa, ia = flow(mid, 'R', 'A')
        if k['A'] == 'full':
            fa['ins'].append(dep(None, ('t', SRC, iA, [('a', i)])))
            fA['outs'].append(dep(None, ('t', MID, ia, [('a', i), ('r', C(0), J, C(1))])))
        elif k['A'] == 'first':
            fa['ins'].append(dep(('==', j, C(0)), ('t', SRC, iA, [('a', i)]), alt_t))
            fA['outs'].append(dep(None, ('t', MID, ia, [('a', i), ('a', C(0))])))
        else:
            fa['ins'].append(dep(('==', ('%', j, C(2)), C(0)), ('t', SRC, iA, [('a', i)]), alt_t))
            fA['outs'].append(dep(None, ('t', MID, ia, [('a', i), ('r', C(0), J, C(2))])))
        if k['A2']:      # the same output also feeds the MIDs of the previous row (cyclically)
            fb, ib = flow(mid, 'R', 'A2')
            n = add(I, C(1))
            fb['ins'].append(dep(None, ('t', SRC, iA, [('a', ('%', add(i, C(1)), n))])))
            fA['outs'].append(dep(None, ('t', MID, ib, [('a', ('%', add(i, I), n)), ('r', C(0), J, C(1))])))
    # ---- guarded output B
    if k['B']:
        fB, iB = flow(src, 'W', 'B')
        fB['ins'].append(dep(None, ('new',)))
        gB = None if k['Bg'] is None else (('==', ('%', i, C(2)), C(0)) if k['Bg'] == 'even' else ('==', i, I))
        if k['B'] in ('mid', 'both'):
            fb, ib = flow(mid, 'R', 'B')
            cond = ('==', j, jx(k['jb']))
            if gB is not None:
                cond = ('&&', cond, gB)
            fb['ins'].append(dep(cond, ('t', SRC, iB, [('a', i)]), ('null',)))
            fB['outs'].append(dep(gB, ('t', MID, ib, [('a', i), ('a', jx(k['jb']))])))
        if k['B'] == 'suffix':
            fb, ib = flow(mid, 'R', 'B')
            cond = ('>=', j, C(1))
            if gB is not None:
                cond = ('&&', cond, gB)
            fb['ins'].append(dep(cond, ('t', SRC, iB, [('a', i)]), ('null',)))
            fB['outs'].append(dep(gB, ('t', MID, ib, [('a', i), ('r', C(1), J, C(1))])))
        if k['B'] in ('snk', 'both'):
            fs, is_ = flow(snk, 'R', 'B')
            if gB is None:
                fs['ins'].append(dep(None, ('t', SRC, iB, [('a', i)])))
            else:
                fs['ins'].append(dep(gB, ('t', SRC, iB, [('a', i)]), ('null',)))
            fB['outs'].append(dep(gB, ('t', SNK, is_, [('a', i)])))
    # ---- RW chain along j seeded by SRC(i), stored by SNK(i)
    if k['chain']:
        fC, iC = flow(src, 'W', 'Cw')
        fC['ins'].append(dep(None, ('new',)))
        fx, ix = flow(mid, 'RW', 'X')
        fs, is_ = flow(snk, 'RW', 'X')
        fC['outs'].append(dep(None, ('t', MID, ix, [('a', i), ('a', C(0))])))
        fx['ins'].append(dep(('==', j, C(0)), ('t', SRC, iC, [('a', i)]), ('t', MID, ix, [('a', i), ('a', sub(j, C(1)))])))
        fx['outs'].append(dep(('==', j, J), ('t', SNK, is_, [('a', i)]), ('t', MID, ix, [('a', i), ('a', add(j, C(1)))])))
        fs['ins'].append(dep(None, ('t', MID, ix, [('a', i), ('a', J)])))
        fs['outs'].append(dep(None, ('m', None)))
    else:
        fo, io = flow(snk, 'W', 'O')
        fo['ins'].append(dep(None, ('new',)))
        fo['outs'].append(dep(None, ('m', None)))
    # ---- CTL SRC -> MID
    if k['K']:
        fK, iK = flow(src, 'CTL', 'K')
        fk, ik = flow(mid, 'CTL', 'K')
        if k['K'] == 'all':
            fK['outs'].append(dep(None, ('t', MID, ik, [('a', i), ('r', C(0), J, C(1))])))
            fk['ins'].append(dep(None, ('t', SRC, iK, [('a', i)])))
        else:
            fK['outs'].append(dep(None, ('t', MID, ik, [('a', i), ('a', J)])))
            fk['ins'].append(dep(('==', j, J), ('t', SRC, iK, [('a', i)])))
    # ---- CTL gather MID(i, *) -> SNK(i)
    if k['gather']:
        fg, ig = flow(mid, 'CTL', 'Gc')
        fs, is_ = flow(snk, 'CTL', 'Gc')
        fg['outs'].append(dep(None, ('t', SNK, is_, [('a', i)])))
        fs['ins'].append(dep(None, ('t', MID, ig, [('a', i), ('r', C(0), J, C(1))])))
    # ---- WRITE flow MID(i, jy) -> SNK(i)
    if k['Y']:
        fy, iy = flow(mid, 'W', 'Y')
        fs, is_ = flow(snk, 'R', 'Y')
        fy['ins'].append(dep(None, ('new',)))
        fy['outs'].append(dep(('==', j, jx(k['jy'])), ('t', SNK, is_, [('a', i)])))
        fs['ins'].append(dep(None, ('t', MID, iy, [('a', i), ('a', jx(k['jy']))])))
    # ---- chain along i inside SRC
    if k['S'] == 'ctl':
        fS, iS = flow(src, 'CTL', 'S')
        fS['ins'].append(dep(('>', i, C(0)), ('t', SRC, iS, [('a', sub(i, C(1)))])))
        fS['outs'].append(dep(('<', i, I), ('t', SRC, iS, [('a', add(i, C(1)))])))
    elif k['S'] == 'data':
        fS, iS = flow(src, 'W', 'S')
        fT, iT = flow(src, 'R', 'S2')
        fS['ins'].append(dep(None, ('new',)))
        fS['outs'].append(dep(('<', i, I), ('t', SRC, iT, [('a', add(i, C(1)))])))
        fT['ins'].append(dep(('>', i, C(0)), ('t', SRC, iS, [('a', sub(i, C(1)))]), ('null',)))
    # ---- data chain along i inside SNK
    if k['Z']:
        fZ, iZ = flow(snk, 'W', 'Z')
        fT, iT = flow(snk, 'R', 'Z2')
        fZ['ins'].append(dep(None, ('new',)))
        fZ['outs'].append(dep(('<', i, I), ('t', SNK, iT, [('a', add(i, C(1)))])))
        fT['ins'].append(dep(('>', i, C(0)), ('t', SNK, iZ, [('a', sub(i, C(1)))]), ('null',)))
    classes = [src, mid, snk]
    for c in classes:
        if not c['flows']:
            f, _ = flow(c, 'R', 'D')
            f['ins'].append(dep(None, ('m', None)))
        ptg_gen.fix_mem(c)
        if len(c['flows']) > 6:
            return None
    gv = []
    seen = set()
    while len(gv) < 2:
        g = (rng.range(1, 4), rng.range(1, 2) if not gv else rng.range(0, 2))     # the first shape has at least two columns
        if g in seen:
            continue
        seen.add(g)
        gv.append(list(g))
    p = Program(name, 2, classes, gv, 'dist')
    p.knobs = k
    return p


def gen_dist_programs(rng, n, prefix):
    out = []
    t = 0
    while len(out) < n and t < 50 * n + 50:
        p = gen_dist_program(rng.fork(t), '%s%d' % (prefix, len(out)))
        t += 1
        if p is not None:
            out.append(p)
    return out


# ------------------------------------------------------------------ distributions (tile -> owner rank)
def _mix64(x):
    x = (x + 0x9E3779B97F4A7C15) & 0xFFFFFFFFFFFFFFFF
    x = ((x ^ (x >> 30)) * 0xBF58476D1CE4E5B9) & 0xFFFFFFFFFFFFFFFF
    x = ((x ^ (x >> 27)) * 0x94D049BB133111EB) & 0xFFFFFFFFFFFFFFFF
    return x ^ (x >> 31)


def dist_table(kind, nranks, rng=None, nt=NT, mt=4):
    """owner of every tile.  kind: 'cyc' | 'bc' (2D block-cyclic over a PxQ grid, P*Q = nranks, random blocking) |
    'tab' (random table) | 'hash' (hash of the tile index with a random salt)"""
    if kind == 'cyc' or nranks == 1:
        return [t % nranks for t in range(nt)]
    if kind == 'bc':
        grids = [(p, nranks // p) for p in range(1, nranks + 1) if nranks % p == 0]
        P, Q = rng.choice(grids)
        kp, kq = rng.range(1, 2), rng.range(1, 2)
        return [(((t % mt) // kp) % P) * Q + (((t // mt) // kq) % Q) for t in range(nt)]
    if kind == 'tab':
        return [rng.below(nranks) for _ in range(nt)]
    if kind == 'hash':
        salt = rng.below(1 << 20)
        return [_mix64(t + salt) % nranks for t in range(nt)]
    raise ValueError(kind)


# ------------------------------------------------------------------ hand-written programs (corpus)
def witness_5_2():
    """The program of DESIGN.md 5.2: P(0) on tile 0 sends flow A to C(1) and C(2), flow B to C(2) only; with the cyclic
    distribution on 3 ranks: A -> ranks {1, 2}, B -> rank {2}."""
    P = {'name': 'P', 'locals': [rng_local('p', C(0))], 'prio': None, 'from': None, 'extra': False, 'place': V(0),
         'flows': [{'acc': 'W', 'name': 'A', 'ins': [dep(None, ('new',))], 'outs': [dep(None, ('t', 1, 0, [('r', C(1), C(2), C(1))]))]},
                   {'acc': 'W', 'name': 'B', 'ins': [dep(None, ('new',))], 'outs': [dep(None, ('t', 1, 1, [('a', C(2))]))]}]}
    Cc = {'name': 'Q', 'locals': [{'kind': 'R', 'name': 'k', 'param': True, 'lo': C(1), 'hi': C(2), 'step': C(1)}],
          'prio': None, 'from': None, 'extra': False, 'place': V(0),
          'flows': [{'acc': 'R', 'name': 'A', 'ins': [dep(None, ('t', 0, 0, [('a', C(0))]))], 'outs': []},
                    {'acc': 'R', 'name': 'B', 'ins': [dep(('==', V(0), C(2)), ('t', 0, 1, [('a', C(0))]), ('null',))], 'outs': []}]}
    return Program('w52', 1, [P, Cc], [[0]], 'dist')
