"""Seeded generator of random PTG (JDF) programs in the subset modelled by lean/ParsecVerif/Model/Ptg.lean.

Every program is emitted twice from ONE Python value: as JDF text for parsec-ptgpp (`Program.jdf()`) and as the
one-line serialisation parsed by the Lean driver into `Ptg.Program` (`Program.ser(globals)`, grammar in
lean/ParsecVerif/Model/PtgParse.lean and docs/notes/PTG.md).  The integer globals G0.. are run-time arguments of the
compiled program (`-g g0,g1,..`), so one compilation serves several shapes (`Program.gvecs`).

Expressions:  ('c', n) | ('v', ix) | ('g', ix) | (op, a, b) | ('!', a) | ('?', c, a, b)      op in OPS
Local:        {'kind': 'R', 'name', 'param': True, 'lo', 'hi', 'step'} | {'kind': 'D', 'name', 'param': bool, 'e'}
Target:       ('t', cls, flow, [arg..]) | ('m', e) | ('new',) | ('null',)       arg: ('a', e) | ('r', lo, hi, step)
Dep:          {'g': e|None, 't': target, 'f': target|None}
Flow:         {'acc': 'R'|'RW'|'W'|'CTL', 'name', 'ins': [dep..], 'outs': [dep..]}

Modes:  'full'   1-4 classes with data/CTL chains, cross-class fan-out, guards, NEW/NULL, priorities; positive steps
                 (constants and expressions); valid by construction (edges go forward in enumeration order)
        'shapes' parameter-space shapes for the key functions: up to 4 parameters, negative bounds, negative steps,
                 derived parameters and derived locals, bounds depending on outer parameters; trivial flows
All randomness comes from the pv.Rng given by the caller."""
import itertools, json

OPS = ['+', '-', '*', '/', '%', '<', '<=', '>', '>=', '==', '!=', '&&', '||']


# ------------------------------------------------------------------ expressions
def C(n): return ('c', n)
def V(i): return ('v', i)
def G(i): return ('g', i)
def add(a, b): return ('+', a, b) if b != C(0) else a
def sub(a, b): return ('-', a, b) if b != C(0) else a
def mul(a, b): return ('*', a, b)


def cdiv(a, b):
    if b == 0:
        return 0
    q = abs(a) // abs(b)
    return q if (a >= 0) == (b > 0) else -q


def ev(e, g, l):
    """generator-side evaluator (C semantics); used only to steer generation and by the oracles in checks/"""
    t = e[0]
    if t == 'c': return e[1]
    if t == 'v': return l[e[1]] if e[1] < len(l) else 0
    if t == 'g': return g[e[1]] if e[1] < len(g) else 0
    if t == '!': return int(ev(e[1], g, l) == 0)
    if t == '?': return ev(e[2], g, l) if ev(e[1], g, l) != 0 else ev(e[3], g, l)
    a, b = ev(e[1], g, l), ev(e[2], g, l)
    if t == '+': return a + b
    if t == '-': return a - b
    if t == '*': return a * b
    if t == '/': return cdiv(a, b)
    if t == '%': return a - b * cdiv(a, b) if b != 0 else a
    if t == '<': return int(a < b)
    if t == '<=': return int(a <= b)
    if t == '>': return int(a > b)
    if t == '>=': return int(a >= b)
    if t == '==': return int(a == b)
    if t == '!=': return int(a != b)
    if t == '&&': return int(a != 0 and b != 0)
    if t == '||': return int(a != 0 or b != 0)
    raise ValueError(e)


def subst(e, f):
    """replace every ('v', i) by f(i)"""
    t = e[0]
    if t == 'v': return f(e[1])
    if t in ('c', 'g'): return e
    return (t,) + tuple(subst(x, f) for x in e[1:])


def vars_of(e):
    t = e[0]
    if t == 'v': return {e[1]}
    if t in ('c', 'g'): return set()
    s = set()
    for x in e[1:]:
        s |= vars_of(x)
    return s


def e_ser(e):
    t = e[0]
    if t in ('c', 'v', 'g'): return '%s %d' % (t, e[1])
    if t == '!': return '! ' + e_ser(e[1])
    if t == '?': return '? %s %s %s' % (e_ser(e[1]), e_ser(e[2]), e_ser(e[3]))
    return '%s %s %s' % (t, e_ser(e[1]), e_ser(e[2]))


def e_jdf(e, names):
    t = e[0]
    if t == 'c': return str(e[1]) if e[1] >= 0 else '(%d)' % e[1]
    if t == 'v': return names[e[1]]
    if t == 'g': return 'G%d' % e[1]
    if t == '!': return '(!%s)' % e_jdf(e[1], names)
    if t == '?': return '(%s ? %s : %s)' % (e_jdf(e[1], names), e_jdf(e[2], names), e_jdf(e[3], names))
    return '(%s %s %s)' % (e_jdf(e[1], names), t, e_jdf(e[2], names))


# ------------------------------------------------------------------ program value
class Program:
    def __init__(self, name, nglobals, classes, gvecs, mode):
        self.name, self.nglobals, self.classes, self.gvecs, self.mode = name, nglobals, classes, gvecs, mode

    # ---- serialisation for the Lean driver
    def ser(self, g):
        out = ['P', str(len(g))] + [str(x) for x in g] + [str(len(self.classes))]
        for c in self.classes:
            out += ['C', c['name'], str(len(c['locals']))]
            for l in c['locals']:
                if l['kind'] == 'R':
                    out += ['R', '1' if l['param'] else '0', e_ser(l['lo']), e_ser(l['hi']), e_ser(l['step'])]
                else:
                    out += ['D', '1' if l['param'] else '0', e_ser(l['e'])]
            out.append(e_ser(c['place']))
            out += ['N'] if c['prio'] is None else ['Y', e_ser(c['prio'])]
            out.append(str(len(c['flows'])))
            for f in c['flows']:
                out += ['F', f['acc'], str(len(f['ins']))] + [self._dep_ser(d) for d in f['ins']]
                out += [str(len(f['outs']))] + [self._dep_ser(d) for d in f['outs']]
        return ' '.join(out)

    def _t_ser(self, t):
        if t[0] == 't':
            args = []
            for a in t[3]:
                args.append('a ' + e_ser(a[1]) if a[0] == 'a' else 'r %s %s %s' % (e_ser(a[1]), e_ser(a[2]), e_ser(a[3])))
            return ' '.join(['t', str(t[1]), str(t[2]), str(len(args))] + args)
        if t[0] == 'm':
            return 'm ' + e_ser(t[1])
        return t[0]

    def _dep_ser(self, d):
        if d['g'] is None:
            return 'U ' + self._t_ser(d['t'])
        if d['f'] is None:
            return 'B %s %s' % (e_ser(d['g']), self._t_ser(d['t']))
        return 'T %s %s %s' % (e_ser(d['g']), self._t_ser(d['t']), self._t_ser(d['f']))

    # ---- JDF text
    def _t_jdf(self, t, names):
        if t[0] == 't':
            tc = self.classes[t[1]]
            args = []
            for a in t[3]:
                if a[0] == 'a':
                    args.append(e_jdf(a[1], names))
                else:
                    s = '%s .. %s' % (e_jdf(a[1], names), e_jdf(a[2], names))
                    if a[3] != C(1):
                        s += ' .. %s' % e_jdf(a[3], names)
                    args.append(s)
            return '%s %s(%s)' % (tc['flows'][t[2]]['name'], tc['name'], ', '.join(args))
        if t[0] == 'm':
            return 'ddesc(%s)' % e_jdf(t[1], names)
        return 'NEW' if t[0] == 'new' else 'NULL'

    def _dep_jdf(self, d, names):
        if d['g'] is None:
            return self._t_jdf(d['t'], names)
        s = '%s ? %s' % (e_jdf(d['g'], names), self._t_jdf(d['t'], names))
        if d['f'] is not None:
            s += ' : %s' % self._t_jdf(d['f'], names)
        return s

    def _isnew_c(self, ins, names):
        """C expression (over the task's locals): the FIRST input dependency whose guard holds names NEW (this is the
        dependency the generated data_lookup takes)"""
        if not ins:
            return '0'
        d = ins[0]
        rest = self._isnew_c(ins[1:], names)
        t = '1' if d['t'][0] == 'new' else '0'
        if d['g'] is None:
            return t
        e = ('1' if d['f'][0] == 'new' else '0') if d['f'] is not None else rest
        if t == '0' and e == '0':
            return '0'
        return '(%s ? %s : %s)' % (e_jdf(d['g'], names), t, e)

    def jdf(self):
        n = self.name
        o = ['extern "C" %{', '#include "ptg_rt.h"', '%}', '',
             'ddesc   [type = "parsec_data_collection_t*"]']
        for i in range(self.nglobals):
            o.append('G%d      [type = int]' % i)
        o.append('')
        for ci, c in enumerate(self.classes):
            names = [l['name'] for l in c['locals']]
            o.append('%s(%s)' % (c['name'], ', '.join(l['name'] for l in c['locals'] if l['param'])))
            for i, l in enumerate(c['locals']):
                if l['kind'] == 'R':
                    s = ' %s = %s .. %s' % (l['name'], e_jdf(l['lo'], names), e_jdf(l['hi'], names))
                    if l['step'] != C(1):
                        s += ' .. %s' % e_jdf(l['step'], names)
                else:
                    s = ' %s = %s' % (l['name'], e_jdf(l['e'], names))
                o.append(s)
            o.append(': ddesc(%s)' % e_jdf(c['place'], names))
            o.append('')
            kw = {'R': 'READ', 'RW': 'RW', 'W': 'WRITE', 'CTL': 'CTL'}
            for f in c['flows']:
                lines = ['<- ' + self._dep_jdf(d, names) for d in f['ins']] + ['-> ' + self._dep_jdf(d, names) for d in f['outs']]
                head = '%-5s %s ' % (kw[f['acc']], f['name'])
                for k, ln in enumerate(lines):
                    o.append((head if k == 0 else ' ' * len(head)) + ln)
                if not lines:
                    o.append(head)
            o.append('')
            if c['prio'] is not None:
                o.append('; %s' % e_jdf(c['prio'], names))
                o.append('')
            loc = ', '.join(names)
            o += ['BODY', '{', '  ptg_task_begin(es->th_id, %d, %d, %s);' % (ci, len(names), loc)]
            for fi, f in enumerate(c['flows']):
                if f['acc'] != 'CTL':
                    mode = {'R': 'PTG_READ', 'RW': 'PTG_RW', 'W': 'PTG_WRITE'}[f['acc']]
                    isnew = self._isnew_c(f['ins'], names)
                    if isnew != '0':
                        mode = '%s | (%s ? PTG_NEW : 0)' % (mode, isnew)
                    o.append('  ptg_flow(es->th_id, %d, %s, %s);' % (fi, mode, f['name']))
            o += ['  return ptg_task_end(es->th_id, %d, %d, %s);' % (ci, len(names), loc), '}', 'END', '']
        gl = ''.join(', g[%d]' % i for i in range(self.nglobals))
        o += ['extern "C" %{',
              'static parsec_taskpool_t *ptg_make(parsec_data_collection_t *dc, const int *g)', '{',
              '    parsec_%s_taskpool_t *tp = parsec_%s_new(dc%s);' % (n, n, gl),
              '    (void)g;',
              '    ptg_rt_set_adt(&tp->arenas_datatypes[PARSEC_%s_DEFAULT_ADT_IDX]);' % n,
              '    return &tp->super;', '}',
              'static int ptg_initial(parsec_taskpool_t *tp) { return ((__parsec_%s_internal_taskpool_t *)tp)->initial_number_tasks; }' % n,
              'static int ptg_inited(parsec_taskpool_t *tp) { return 0 == ((__parsec_%s_internal_taskpool_t *)tp)->sync_point; }' % n,
              'static void ptg_unmake(parsec_taskpool_t *tp) { ptg_rt_unset_adt(&((parsec_%s_taskpool_t *)tp)->arenas_datatypes[PARSEC_%s_DEFAULT_ADT_IDX]); }' % (n, n),
              'int main(int argc, char **argv) { return ptg_rt_main(argc, argv, %d, ptg_make, ptg_initial, ptg_inited, ptg_unmake); }' % self.nglobals,
              '%}', '']
        return '\n'.join(o)

    # ---- corpus / replay files: the whole program as JSON (stable under changes of the generator)
    def to_case(self, extra=None):
        d = {'name': self.name, 'nglobals': self.nglobals, 'mode': self.mode, 'gvecs': self.gvecs,
             'classes': [{k: c[k] for k in ('name', 'locals', 'place', 'prio', 'flows')} for c in self.classes]}
        if extra:
            d.update(extra)
        return json.dumps(d)

    @staticmethod
    def from_case(text):
        def tup(x):
            if isinstance(x, list):
                return tuple(tup(y) for y in x)
            return x

        def target(t):
            if t is None:
                return None
            t = list(t)
            if t[0] == 't':
                return ('t', t[1], t[2], [tuple([a[0]] + [tup(x) for x in a[1:]]) for a in t[3]])
            if t[0] == 'm':
                return ('m', tup(t[1]))
            return (t[0],)
        d = json.loads(text) if isinstance(text, str) else text
        classes = []
        for c in d['classes']:
            locs = []
            for l in c['locals']:
                l = dict(l)
                for k in ('lo', 'hi', 'step', 'e'):
                    if k in l:
                        l[k] = tup(l[k])
                locs.append(l)
            flows = []
            for f in c['flows']:
                flows.append({'acc': f['acc'], 'name': f['name'],
                              'ins': [{'g': tup(x['g']) if x['g'] is not None else None, 't': target(x['t']), 'f': target(x['f'])} for x in f['ins']],
                              'outs': [{'g': tup(x['g']) if x['g'] is not None else None, 't': target(x['t']), 'f': target(x['f'])} for x in f['outs']]})
            classes.append({'name': c['name'], 'locals': locs, 'place': tup(c['place']), 'prio': tup(c['prio']) if c['prio'] is not None else None,
                            'flows': flows, 'from': None, 'extra': False})
        p = Program(d['name'], d['nglobals'], classes, [list(g) for g in d['gvecs']], d.get('mode', 'full'))
        p.meta = {k: v for k, v in d.items() if k not in ('name', 'nglobals', 'mode', 'gvecs', 'classes')}
        return p

    def features(self):
        """syntactic features, for the input-distribution report"""
        f = {'classes': len(self.classes), 'derived_params': 0, 'derived_locals': 0, 'params': 0, 'neg_steps': 0, 'const_steps_gt1': 0,
             'expr_steps': 0, 'dependent_bounds': 0, 'ctl_flows': 0, 'data_flows': 0, 'guarded_deps': 0, 'ternary_deps': 0,
             'new': 0, 'null': 0, 'fanout_ranges': 0, 'priorities': 0, 'task_deps': 0, 'mem_deps': 0}
        for c in self.classes:
            f['priorities'] += c['prio'] is not None
            for l in c['locals']:
                if l['kind'] == 'D':
                    f['derived_params' if l['param'] else 'derived_locals'] += 1
                else:
                    f['params'] += 1
                    st = l['step']
                    if st[0] == 'c':
                        f['neg_steps'] += st[1] < 0
                        f['const_steps_gt1'] += st[1] > 1
                    else:
                        f['expr_steps'] += 1
                    f['dependent_bounds'] += bool(vars_of(l['lo']) | vars_of(l['hi']) | vars_of(l['step']))
            for fl in c['flows']:
                f['ctl_flows' if fl['acc'] == 'CTL' else 'data_flows'] += 1
                for d in fl['ins'] + fl['outs']:
                    f['guarded_deps'] += d['g'] is not None
                    f['ternary_deps'] += d['f'] is not None
                    for t in (d['t'], d['f']):
                        if t is None:
                            continue
                        f['new'] += t[0] == 'new'
                        f['null'] += t[0] == 'null'
                        f['mem_deps'] += t[0] == 'm'
                        if t[0] == 't':
                            f['task_deps'] += 1
                            f['fanout_ranges'] += sum(1 for a in t[3] if a[0] == 'r')
        return f

    # ---- generator-side enumeration (loop semantics of the JDF text; used for size control)
    def enum(self, ci, g, limit=100000):
        c = self.classes[ci]
        out = []

        def rec(i, env):
            if len(out) > limit:
                return
            if i == len(c['locals']):
                out.append(tuple(env)); return
            l = c['locals'][i]
            if l['kind'] == 'D':
                rec(i + 1, env + [ev(l['e'], g, env)]); return
            lo, hi, st = ev(l['lo'], g, env), ev(l['hi'], g, env), ev(l['step'], g, env)
            if st == 0:
                raise ZeroDivisionError('zero step')
            k = lo
            while (st > 0 and k <= hi) or (st < 0 and k >= hi):
                rec(i + 1, env + [k]); k += st
        rec(0, [])
        return out

    def shape_ok(self, g, max_total=160, max_cls=90):
        """positive steps where required, bounded sizes; returns total size or None"""
        tot = 0
        try:
            for ci in range(len(self.classes)):
                n = len(self.enum(ci, g, limit=max_cls + 1))
                if n > max_cls:
                    return None
                tot += n
        except ZeroDivisionError:
            return None
        return tot if tot <= max_total else None


# ------------------------------------------------------------------ independent oracle of the declared space
def declared_space(prog, g, ci):
    """The execution space as the JDF text declares it, as a SET of full local assignments: every range local takes the
    values lo, lo+step, ... not beyond hi (towards hi when the step is negative), every derived local its expression.
    Written from the language definition (constraint form), not from the loops of the generated code: used by the
    oracles of checks/C01.py and checks/C23.py."""
    c = prog.classes[ci]
    envs = [[]]
    for l in c['locals']:
        nxt = []
        for env in envs:
            if l['kind'] == 'D':
                nxt.append(env + [ev(l['e'], g, env)]); continue
            lo, hi, st = ev(l['lo'], g, env), ev(l['hi'], g, env), ev(l['step'], g, env)
            if st == 0:
                continue
            # all v between lo and hi (inclusive, whichever is larger) with v = lo (mod |step|)
            a, b = (lo, hi) if st > 0 else (hi, lo)
            first = a + ((lo - a) % abs(st))
            for v in range(first, b + 1, abs(st)):
                nxt.append(env + [v])
        envs = nxt
    return set(tuple(e) for e in envs)


def declared_preds(prog, g, ci, env):
    """The producers an instance waits for, read off its INPUT dependencies as the language defines them: for every flow,
    every input dependency whose guard holds (else-branch when it does not) and that names a task contributes the named
    instance(s) — (class, tuple of PARAMETER values).  Independent of the Lean model; used by the ordering oracle."""
    c = prog.classes[ci]
    out = []
    for f in c['flows']:
        for d in f['ins']:
            t = d['t'] if d['g'] is None or ev(d['g'], g, list(env)) != 0 else d['f']
            if t is None or t[0] != 't':
                continue
            vals = [[]]
            for a in t[3]:
                if a[0] == 'a':
                    xs = [ev(a[1], g, list(env))]
                else:
                    lo, hi, st = (ev(x, g, list(env)) for x in a[1:])
                    xs = list(range(lo, hi + 1, st)) if st > 0 else []
                vals = [v + [x] for v in vals for x in xs]
            out += [(t[1], tuple(v)) for v in vals]
    return out


def params_of(prog, ci, env):
    return tuple(v for v, l in zip(env, prog.classes[ci]['locals']) if l['param'])


def inst_name(prog, ci, env):
    c = prog.classes[ci]
    return '%s(%s)' % (c['name'], ', '.join(str(v) for v, l in zip(env, c['locals']) if l['param']))


# ------------------------------------------------------------------ random pieces
LETTERS = 'ijkmnpqr'


def small_expr(rng, nloc, ng, depth=1):
    """a small integer expression over the locals defined so far and the globals"""
    atoms = [C(rng.range(-3, 4))]
    atoms += [V(rng.below(nloc))] * 3 if nloc else []
    atoms += [G(rng.below(ng))] if ng else []
    a = rng.choice(atoms)
    if depth <= 0 or rng.chance(1, 3):
        return a
    b = small_expr(rng, nloc, ng, depth - 1)
    r = rng.below(10)
    if r < 3: return ('+', a, b)
    if r < 5: return ('-', a, b)
    if r < 6: return ('*', a, C(rng.range(-2, 3)))
    if r < 7: return ('/', a, C(rng.choice([2, 3, -2])))
    if r < 8: return ('%', a, C(rng.choice([2, 3])))
    if r < 9: return ('?', ('<', a, b), a, b)
    return ('+', ('*', C(2), a), C(1))


def guard_expr(rng, nloc, ng):
    a = V(rng.below(nloc)) if nloc else G(0)
    r = rng.below(6)
    if r == 0: return ('==', ('%', add(a, C(8)), C(2)), C(rng.below(2)))
    if r == 1: return ('<', a, small_expr(rng, nloc, ng, 0))
    if r == 2: return ('!=', a, C(rng.range(-2, 3)))
    if r == 3: return ('&&', ('>=', a, C(rng.range(-3, 1))), ('!', ('==', a, C(rng.range(0, 3)))))
    if r == 4: return ('||', ('>', a, C(rng.range(0, 2))), ('<=', small_expr(rng, nloc, ng, 0), C(0)))
    return ('>=', small_expr(rng, nloc, ng, 1), C(0))


def gen_locals(rng, ng, nparams, suffix, shapes):
    """locals of a fresh class: nparams range parameters, interleaved with 0-2 derived locals"""
    locs = []
    nder = rng.choice([0, 0, 1, 1, 2]) if not shapes else rng.choice([0, 1, 1, 2])
    kinds = ['R'] * nparams + ['D'] * nder
    # keep a range first most of the time
    rest = kinds[1:]
    for i in range(len(rest) - 1, 0, -1):
        j = rng.below(i + 1); rest[i], rest[j] = rest[j], rest[i]
    kinds = kinds[:1] + rest
    if shapes and nder and rng.chance(1, 4):
        kinds = ['D'] + [k for k in kinds if k == 'R'] + ['D'] * (nder - 1)
    nr = nd = 0
    for idx, k in enumerate(kinds):
        n = len(locs)
        if k == 'R':
            name = LETTERS[nr] + suffix; nr += 1
            r = rng.below(10)
            if r < 4 or n == 0:
                lo = C(rng.range(-3, 3)) if rng.chance(1, 2) else C(0)
            elif r < 7:
                lo = rng.choice([V(rng.below(n)), sub(V(rng.below(n)), C(rng.range(1, 2)))])
            else:
                lo = small_expr(rng, n, ng, 1)
            r = rng.below(10)
            if r < 4:
                hi = add(lo, C(rng.range(0, 3)))
            elif r < 6 and ng:
                hi = G(rng.below(ng))
            elif r < 8 and n:
                hi = add(V(rng.below(n)), C(rng.range(0, 2)))
            else:
                hi = add(lo, ('%', add(small_expr(rng, n, ng, 0), C(9)), C(rng.range(2, 4))))
            r = rng.below(10)
            if r < 6:
                st = C(1)
            elif r < 8:
                st = C(rng.range(2, 3))
            elif ng and r < 9:
                st = add(('%', add(G(rng.below(ng)), C(8)), C(2)), C(1))
            elif n:
                st = add(('%', add(V(rng.below(n)), C(16)), C(2)), C(1))
            else:
                st = C(2)
            locs.append({'kind': 'R', 'name': name, 'param': True, 'lo': lo, 'hi': hi, 'step': st})
        else:
            name = 'd%d%s' % (nd, suffix); nd += 1
            e = small_expr(rng, n, ng, 2) if n else add(G(0) if ng else C(1), C(rng.range(-1, 2)))
            locs.append({'kind': 'D', 'name': name, 'param': rng.chance(1, 2) if not shapes else rng.chance(2, 3), 'e': e})
    return locs


def negate_some(rng, locs):
    """rewrite some unit-step ranges  lo .. hi  as  hi .. lo .. -1  (same set of values, opposite order)"""
    done = 0
    for l in locs:
        if l['kind'] == 'R' and l['step'] == C(1) and rng.chance(1, 2):
            l['lo'], l['hi'], l['step'] = l['hi'], l['lo'], C(-1)
            done += 1
    return done


def later_range_deps(locs, ix):
    """does local ix influence the bounds/steps of a later range (directly or through derived locals)?"""
    tainted = {ix}
    for j in range(ix + 1, len(locs)):
        l = locs[j]
        if l['kind'] == 'D':
            if vars_of(l['e']) & tainted:
                tainted.add(j)
        else:
            if (vars_of(l['lo']) | vars_of(l['hi']) | vars_of(l['step'])) & tainted:
                return True
    return False


def tainted_by(locs, ix):
    """indices of the locals whose value depends on local ix (ix itself and derived locals using it)"""
    t = {ix}
    for j in range(ix + 1, len(locs)):
        l = locs[j]
        if l['kind'] == 'D' and vars_of(l['e']) & t:
            t.add(j)
    return t


def target_args(locs, shift_ix=None, shift=None, upto=None):
    """argument expressions (in the source instance's environment) naming the instance of the same locals list
    whose range parameter shift_ix is moved by `shift`; derived parameters that depend on it are recomputed."""
    taint = tainted_by(locs, shift_ix) if shift_ix is not None else set()
    memo = {}

    def val(i):
        if i in memo:
            return memo[i]
        l = locs[i]
        if i == shift_ix:
            r = add(V(i), shift)
        elif i in taint:
            r = subst(l['e'], val)
        else:
            r = V(i)
        memo[i] = r
        return r
    n = len(locs) if upto is None else upto
    return [('a', val(i)) for i in range(n) if locs[i]['param']]


def pick_source(rng, nloc, ng, allow_null):
    """an input source that is not a task; ('m', None) = the collection element the task is placed on (filled in by
    fix_mem: direct memory references always name the placement expression, so programs are valid on several ranks)"""
    r = rng.below(10)
    if r < 6:
        return ('m', None)
    if r < 9 or not allow_null:
        return ('new',)
    return ('null',)


def fix_mem(c, ci=0, datasafe=False):
    """fill in the placeholders ('m', None).  Default: the class's placement expression (valid on several ranks).
    datasafe (C02, single process): one tile per (class, flow, instance) — a linear form of the range locals that is
    injective on small spaces — so that in-place updates and write-backs of different instances never meet by accident
    (whether they really do not is decided by the validity analysis, not assumed)."""
    for fi, f in enumerate(c['flows']):
        e = c['place']
        if datasafe:
            e = C(29 * (ci * 7 + fi) + 40)
            coef = 1
            for i, l in enumerate(c['locals']):
                if l['kind'] == 'R':
                    e = add(e, mul(V(i), C(coef)) if coef != 1 else V(i))
                    coef *= 13
        for d in f['ins'] + f['outs']:
            for k in ('t', 'f'):
                if d[k] is not None and d[k][0] == 'm' and d[k][1] is None:
                    d[k] = ('m', e)


# ------------------------------------------------------------------ program generation
def gen_program(rng, name, mode='full', ngvecs=3, derived_params=True, datasafe=False):
    """returns a Program, or None if the draw had to be rejected (caller retries with the next fork)"""
    shapes = mode == 'shapes'
    ng = rng.range(1, 3)
    ncls = rng.choice([1, 2, 2, 3, 3, 4]) if not shapes else rng.choice([1, 1, 2, 2, 3])
    classes = []
    for ci in range(ncls):
        suffix = str(ci)
        derived_from = None
        if not shapes and ci > 0 and rng.chance(3, 5):
            derived_from = rng.below(ci)
            base = classes[derived_from]
            locs = [dict(l, name=l['name'][:-len(str(derived_from))] + suffix) for l in base['locals']]
            extra = None
            if rng.chance(1, 2) and sum(1 for l in locs if l['kind'] == 'R') < 3:
                n = len(locs)
                lo = rng.choice([C(0), C(rng.range(-2, 1)), V(rng.below(n))])
                hi = add(lo, rng.choice([C(rng.range(0, 2)), ('%', add(V(rng.below(n)), C(9)), C(3))]))
                st = rng.choice([C(1), C(1), C(2), add(('%', add(V(rng.below(n)), C(16)), C(2)), C(1))])
                extra = {'kind': 'R', 'name': 'xyzw'[sum(1 for l in locs if l['name'][0] in 'xyzw')] + suffix, 'param': True, 'lo': lo, 'hi': hi, 'step': st}
                locs.append(extra)
        else:
            nparams = rng.choice([1, 2, 2, 3]) if not shapes else rng.choice([1, 2, 3, 3, 4])
            locs = gen_locals(rng, ng, nparams, suffix, shapes)
            if not derived_params:
                for l in locs:
                    if l['kind'] == 'D':
                        l['param'] = False
            extra = None
        if shapes and rng.chance(1, 2):
            negate_some(rng, locs)
        nl = len(locs)
        c = {'name': 'T%d' % ci, 'locals': locs, 'flows': [],
             'place': rng.choice([V(0), V(rng.below(nl)), small_expr(rng, nl, ng, 1)]),
             'prio': small_expr(rng, nl, ng, 1) if rng.chance(1, 3) else None,
             'from': derived_from, 'extra': extra is not None}
        classes.append(c)

    for ci, c in enumerate(classes):
        locs = c['locals']
        nl = len(locs)
        flows = c['flows']
        if shapes:
            acc = rng.choice(['R', 'RW'])
            f = {'acc': acc, 'name': 'A%d' % ci, 'ins': [{'g': None, 't': ('m', None), 'f': None}], 'outs': []}
            if acc == 'RW':
                f['outs'].append({'g': None, 't': ('m', None), 'f': None})
            flows.append(f)
            continue
        # ---- cross-class edges from the class this one was derived from (A = producer, c = consumer)
        if c['from'] is not None:
            A = classes[c['from']]
            na = len(A['locals'])
            guard = guard_expr(rng, na, ng) if rng.chance(1, 2) else None
            args = target_args(locs, upto=na)
            chain_extra = c['extra'] and rng.chance(1, 2)
            x = locs[-1] if c['extra'] else None
            if c['extra']:
                out_args = args + ([('a', x['lo'])] if chain_extra else [('r', x['lo'], x['hi'], x['step'])])
            else:
                out_args = args
            ctl = rng.chance(1, 3)
            # producer side: pick / create a flow
            if ctl:
                pf = {'acc': 'CTL', 'name': 'C%d_%d' % (c['from'], len(A['flows'])), 'ins': [], 'outs': []}
                A['flows'].append(pf)
            else:
                cands = [f for f in A['flows'] if f['acc'] in ('RW', 'W', 'R') and not any(d['t'] == ('null',) or d['f'] == ('null',) for d in f['ins'])]
                if datasafe:
                    # a copy that is passed on must not be updated in place by somebody else meanwhile: only pure readers of a
                    # collection tile may be shared, everything else gets a dedicated WRITE flow
                    cands = [f for f in cands if f['acc'] == 'R' and not f['outs'] and all(d['t'][0] == 'm' and d['f'] is None for d in f['ins'])]
                if cands and rng.chance(2, 3):
                    pf = rng.choice(cands)
                else:
                    pf = {'acc': 'W', 'name': 'W%d_%d' % (c['from'], len(A['flows'])), 'ins': [{'g': None, 't': ('new',), 'f': None}], 'outs': []}
                    A['flows'].append(pf)
            pfi = A['flows'].index(pf)
            cfi = len(flows)
            og = guard
            if chain_extra:    # the first element of the chain must exist
                ne = ('<=', x['lo'], x['hi'])
                og = ne if og is None else ('&&', og, ne)
            pf['outs'].append({'g': og, 't': ('t', ci, cfi, out_args), 'f': None})
            src_t = ('t', c['from'], pfi, args)
            if ctl:
                cf = {'acc': 'CTL', 'name': 'K%d_%d' % (ci, cfi), 'ins': [], 'outs': []}
                if chain_extra:
                    xi = nl - 1
                    first = ('==', V(xi), x['lo'])
                    cf['ins'].append({'g': first if guard is None else ('&&', first, guard), 't': src_t, 'f': None})
                    sh = x['step']
                    cf['ins'].append({'g': ('>=', sub(V(xi), sh), x['lo']), 't': ('t', ci, cfi, target_args(locs, xi, ('-', C(0), sh))), 'f': None})
                    cf['outs'].append({'g': ('<=', add(V(xi), sh), x['hi']), 't': ('t', ci, cfi, target_args(locs, xi, sh)), 'f': None})
                else:
                    cf['ins'].append({'g': guard, 't': src_t, 'f': None})
            else:
                acc = rng.choice(['R', 'RW'])
                if datasafe and ((c['extra'] and not chain_extra) or pf['acc'] == 'R'):
                    acc = 'R'         # several consumers of one copy (fan-out range) / a collection tile read by others: read only
                cf = {'acc': acc, 'name': 'Y%d_%d' % (ci, cfi), 'ins': [], 'outs': []}
                alt = pick_source(rng, nl, ng, allow_null=(acc == 'R' and not chain_extra))
                if chain_extra:
                    xi = nl - 1
                    sh = x['step']
                    prev = ('t', ci, cfi, target_args(locs, xi, ('-', C(0), sh)))
                    notfirst = ('>=', sub(V(xi), sh), x['lo'])
                    if guard is None:
                        cf['ins'].append({'g': notfirst, 't': prev, 'f': src_t})
                    else:
                        cf['ins'].append({'g': notfirst, 't': prev, 'f': None})
                        cf['ins'].append({'g': ('&&', ('!', notfirst), guard), 't': src_t, 'f': None})
                        cf['ins'].append({'g': ('&&', ('!', notfirst), ('!', guard)), 't': alt if alt != ('null',) else ('new',), 'f': None})
                    cf['outs'].append({'g': ('<=', add(V(xi), sh), x['hi']), 't': ('t', ci, cfi, target_args(locs, xi, sh)), 'f': None})
                else:
                    if guard is None:
                        cf['ins'].append({'g': None, 't': src_t, 'f': None})
                    else:
                        cf['ins'].append({'g': guard, 't': src_t, 'f': alt})
                if acc == 'RW' and rng.chance(1, 2):
                    cf['outs'].append({'g': guard_expr(rng, nl, ng) if rng.chance(1, 2) else None, 't': ('m', None), 'f': None})
            flows.append(cf)
        # ---- chains inside the class
        rparams = [i for i, l in enumerate(locs) if l['kind'] == 'R' and not later_range_deps(locs, i)]
        if c['extra'] and c['from'] is not None:
            rparams = [i for i in rparams if i != nl - 1] or rparams
        nchains = rng.choice([0, 1, 1, 2]) if rparams else 0
        for _ in range(nchains):
            ki = rng.choice(rparams)
            k = locs[ki]
            m = rng.choice([1, 1, 2])
            sh = k['step'] if m == 1 else mul(k['step'], C(m))
            extra_g = guard_expr(rng, nl, ng) if rng.chance(1, 3) else None
            if extra_g is not None and vars_of(extra_g) & tainted_by(locs, ki):
                extra_g = None       # the guard must be the same at both ends of the edge
            fi = len(flows)
            ing = ('>=', sub(V(ki), sh), k['lo'])
            outg = ('<=', add(V(ki), sh), k['hi'])
            if extra_g is not None:
                ing, outg = ('&&', ing, extra_g), ('&&', outg, extra_g)
            prev = ('t', ci, fi, target_args(locs, ki, ('-', C(0), sh)))
            nxt = ('t', ci, fi, target_args(locs, ki, sh))
            if rng.chance(1, 3):
                flows.append({'acc': 'CTL', 'name': 'S%d_%d' % (ci, fi), 'ins': [{'g': ing, 't': prev, 'f': None}],
                              'outs': [{'g': outg, 't': nxt, 'f': None}]})
            else:
                src = pick_source(rng, nl, ng, allow_null=False)
                f = {'acc': 'RW', 'name': 'X%d_%d' % (ci, fi), 'ins': [{'g': ing, 't': prev, 'f': src}],
                     'outs': [{'g': outg, 't': nxt, 'f': ('m', None) if rng.chance(1, 2) else None}]}
                flows.append(f)
        if not flows or (rng.chance(1, 4) and len(flows) < 4):
            acc = rng.choice(['R', 'RW', 'R'])
            f = {'acc': acc, 'name': 'A%d_%d' % (ci, len(flows)), 'ins': [], 'outs': []}
            if rng.chance(1, 3):
                gx = guard_expr(rng, nl, ng)
                # (both branches direct memory references: ptgpp emits two functions of the same name — not generated)
                f['ins'].append({'g': gx, 't': ('m', None), 'f': ('new',) if acc == 'RW' else rng.choice([('new',), ('null',)])})
            else:
                f['ins'].append({'g': None, 't': ('m', None), 'f': None})
            if acc == 'RW':
                f['outs'].append({'g': None, 't': ('m', None), 'f': None})
            flows.append(f)
    for ci, c in enumerate(classes):
        fix_mem(c, ci, datasafe)
    # data flows must not be more than PTG_MAXF, locals not more than PTG_MAXP
    for c in classes:
        if len(c['flows']) > 6 or len(c['locals']) > 8:
            return None
    prog = Program(name, ng, classes, [], mode)
    # ---- global vectors: keep those giving bounded, non-degenerate shapes
    tries = 0
    seen = set()
    while len(prog.gvecs) < ngvecs and tries < 40:
        tries += 1
        g = tuple(rng.range(0, 4) if rng.chance(3, 4) else rng.range(-2, 6) for _ in range(ng))
        if g in seen:
            continue
        seen.add(g)
        tot = prog.shape_ok(g)
        if tot is None or tot == 0:
            continue
        if shapes and not neg_ok(prog, g):
            continue
        prog.gvecs.append(list(g))
    if not prog.gvecs:
        return None
    return prog


def neg_ok(prog, g):
    """shapes mode: a header with a negative step must have start > end whenever it is reached (otherwise the startup
    loop `k <= end; k += step` of the generated code never terminates — kept for the corpus, not for random shapes)"""
    for ci, c in enumerate(prog.classes):
        ok = [True]

        def rec(i, env):
            if not ok[0] or i == len(c['locals']):
                return
            l = c['locals'][i]
            if l['kind'] == 'D':
                rec(i + 1, env + [ev(l['e'], g, env)]); return
            lo, hi, st = ev(l['lo'], g, env), ev(l['hi'], g, env), ev(l['step'], g, env)
            if st < 0 and lo <= hi:
                ok[0] = False; return
            k = lo
            while (st > 0 and k <= hi) or (st < 0 and k >= hi):
                rec(i + 1, env + [k]); k += st
        rec(0, [])
        if not ok[0]:
            return False
    return True


def gen_wide(rng, name):
    """'wide' family: SPARSE BUT WIDE parameter spaces — 2-4 range parameters with 2-3 values each (<= ~50 instances) whose
    [min..max] extents are large (large |min| / max, large steps, negative bounds): the product of the extents is spread over
    2^20 .. 2^62, so the strides of make_key exceed 32 bits while NoOverflow still holds (keys must be distinct and print
    correctly).  A chain along one parameter makes the runtime use the keys in its dependency hash tables and repositories."""
    ncls = rng.choice([1, 1, 2])
    classes = []
    for ci in range(ncls):
        suffix = str(ci)
        np_ = rng.choice([2, 3, 3, 4])
        total = rng.range(20, 62)
        # split the exponent: every extent <= 2^29 (so that max-min+1 and hi+step fit an int), small last parameter sometimes
        small_last = rng.chance(1, 2)
        nwide = np_ - 1 if small_last else np_
        exps = []
        rest = min(total, 29 * nwide)
        for i in range(nwide):
            left = nwide - i - 1
            lo_e = max(2, rest - 29 * left)
            hi_e = min(29, rest - 2 * left)
            e = rng.range(lo_e, max(lo_e, hi_e)) if i < nwide - 1 else max(2, min(29, rest))
            exps.append(e)
            rest -= e
        for i in range(len(exps) - 1, 0, -1):
            j = rng.below(i + 1); exps[i], exps[j] = exps[j], exps[i]
        locs = []
        for i, e in enumerate(exps):
            nv = rng.choice([2, 2, 3])
            extent = (1 << e) - rng.below(1 << max(0, e - 3))          # ~2^e
            step = max(1, (extent - 1) // (nv - 1))
            span = step * (nv - 1)
            r = rng.below(4)
            lo = -(span // 2) - rng.below(3) if r < 2 else (-span - rng.below(1 << max(1, e - 2)) if r == 2 else rng.below(1 << max(1, e - 2)))
            locs.append({'kind': 'R', 'name': LETTERS[i] + suffix, 'param': True, 'lo': C(lo), 'hi': C(lo + span + rng.below(min(step, 7))), 'step': C(step)})
        if small_last:
            locs.append({'kind': 'R', 'name': LETTERS[len(exps)] + suffix, 'param': True, 'lo': C(rng.range(-1, 1)), 'hi': C(rng.range(1, 2)), 'step': C(1)})
        if rng.chance(1, 3):          # an expression-defined local / parameter in the middle
            pos = rng.range(1, len(locs) - 1)
            locs.insert(pos, {'kind': 'D', 'name': 'd0' + suffix, 'param': rng.chance(1, 3),
                              'e': rng.choice([('/', V(pos - 1), C(rng.choice([2, 3, -2]))), ('-', V(0), C(rng.range(1, 9)))])})
        nl = len(locs)
        c = {'name': 'T%d' % ci, 'locals': locs, 'flows': [], 'place': V(rng.below(nl)), 'prio': None, 'from': None, 'extra': False}
        # a data chain (or CTL chain) along one range parameter
        ks = [i for i, l in enumerate(locs) if l['kind'] == 'R']
        for fi in range(rng.choice([1, 1, 2])):
            ki = rng.choice(ks)
            k = locs[ki]
            sh = k['step']
            ing, outg = ('>=', sub(V(ki), sh), k['lo']), ('<=', add(V(ki), sh), k['hi'])
            prev = ('t', ci, fi, target_args(locs, ki, ('-', C(0), sh)))
            nxt = ('t', ci, fi, target_args(locs, ki, sh))
            if rng.chance(1, 4):
                c['flows'].append({'acc': 'CTL', 'name': 'S%d_%d' % (ci, fi), 'ins': [{'g': ing, 't': prev, 'f': None}], 'outs': [{'g': outg, 't': nxt, 'f': None}]})
            else:
                c['flows'].append({'acc': 'RW', 'name': 'X%d_%d' % (ci, fi), 'ins': [{'g': ing, 't': prev, 'f': rng.choice([('m', None), ('new',)])}],
                                   'outs': [{'g': outg, 't': nxt, 'f': ('m', None) if rng.chance(1, 2) else None}]})
        fix_mem(c)
        classes.append(c)
    for c in classes:
        for l in c['locals']:
            if l['kind'] == 'R' and (l['hi'][1] + l['step'][1] >= 2**31 - 8 or l['lo'][1] <= -2**31 + 8):
                return None       # the loop increment itself would overflow an int
    prog = Program(name, 1, classes, [[0]], 'wide')
    if prog.shape_ok([0], max_total=60, max_cls=50) in (None, 0):
        return None
    return prog


def gen_programs(rng, n, mode, prefix, derived_params=True, datasafe=False, accept=None):
    """n programs named <prefix>0.. (rejected draws are retried on the next fork of the stream).
    accept(prog) -> bool: an extra filter (e.g. the data-validity analysis of C02); it may prune prog.gvecs."""
    out = []
    k = 0
    while len(out) < n and k < 50 * n + 50:
        if mode == 'wide':
            p = gen_wide(rng.fork(k), '%s%d' % (prefix, len(out)))
        else:
            p = gen_program(rng.fork(k), '%s%d' % (prefix, len(out)), mode, derived_params=derived_params, datasafe=datasafe)
        k += 1
        if p is not None and (accept is None or accept(p)):
            out.append(p)
    return out


if __name__ == '__main__':
    import sys, os
    sys.path.insert(0, os.path.join(os.path.dirname(os.path.abspath(__file__)), '..', 'lib'))
    import pv
    seed = int(sys.argv[1]) if len(sys.argv) > 1 else 1
    mode = sys.argv[2] if len(sys.argv) > 2 else 'full'
    for p in gen_programs(pv.Rng(seed), 3, mode, 'p'):
        print(p.jdf())
        for g in p.gvecs:
            print('// globals', g, 'size', p.shape_ok(g))
            print('// ' + p.ser(g))
