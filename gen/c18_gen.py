"""C18 — generator of producer / fan-out JDF programs with typed dependencies.

One Python value (`Program`) yields the JDF text, the one-line serialisation read by pv_C18 (`prog ...`) and the corpus /
replay form (JSON).  All randomness comes from pv.Rng.

    PROD(k), k = 0 .. NT-1, placed on descA(k):   RW A <- descA(k) [ptype]  -> A Ci(k, 0 .. fan_i-1) [type=ot_i type_remote=or_i] ...
    Ci(k, t), placed on descA(k + shift_i):        READ A <- A PROD(k) [type=it_i type_remote=ir_i]      body: record the copy

Shapes (ADT ids, harness/C18.c): 0 DEFAULT(full) 1 LO(lower+diag) 2 LON(lower, no diag) 3 UP 4 UPN 5 FULL2(full, own handle)
6 LO2(lower+diag, own handle) 7 DC (the collection's default type: never written in a JDF).  -1 = no annotation."""
import json

NAMES = ['DEFAULT', 'LO', 'LON', 'UP', 'UPN', 'FULL2', 'LO2', 'DC']
NONE = -1
DC = 7


def region(shape, i, j):
    """independent statement of the regions (matrixtypes.c documentation): is (row i, column j) selected by the shape"""
    if shape in (1, 6):
        return j <= i
    if shape == 2:
        return j < i
    if shape == 3:
        return i <= j
    if shape == 4:
        return i < j
    return True


def offsets(shape, mb, nb, ld):
    """column-major list of the element offsets selected by a shape on an mb x nb tile with leading dimension ld"""
    return [j * ld + i for j in range(nb) for i in range(mb) if region(shape, i, j)]


class Cons:
    def __init__(self, ot=NONE, orr=NONE, it=NONE, ir=NONE, fan=1, shift=0):
        self.ot, self.orr, self.it, self.ir, self.fan, self.shift = ot, orr, it, ir, fan, shift

    def to_list(self):
        return [self.ot, self.orr, self.it, self.ir, self.fan, self.shift]

    def decl(self):
        for x in (self.it, self.ir, self.ot, self.orr):
            if x != NONE:
                return x
        return 0


class Program:
    def __init__(self, name, mb, nb, ld, nt, cons, pt=NONE, ptd=NONE):
        self.name, self.mb, self.nb, self.ld, self.nt, self.cons, self.pt, self.ptd = name, mb, nb, ld, nt, list(cons), pt, ptd

    # ---------------------------------------------------------------- (de)serialisation
    def to_case(self):
        return {'name': self.name, 'mb': self.mb, 'nb': self.nb, 'ld': self.ld, 'nt': self.nt, 'pt': self.pt, 'ptd': self.ptd,
                'cons': [c.to_list() for c in self.cons]}

    @staticmethod
    def from_case(d):
        return Program(d['name'], d['mb'], d['nb'], d['ld'], d['nt'], [Cons(*c) for c in d['cons']], d.get('pt', NONE), d.get('ptd', NONE))

    def ser(self):
        w = ['P', self.mb, self.nb, self.ld, self.nt, self.pt, self.ptd, len(self.cons)]
        for c in self.cons:
            w += ['C'] + c.to_list()
        return ' '.join(str(x) for x in w)

    def key(self):
        return self.ser()

    def used_types(self):
        s = {0}
        for c in self.cons:
            s |= {x for x in (c.ot, c.orr, c.it, c.ir) if x != NONE}
        s |= {x for x in (self.pt, self.ptd) if x != NONE}
        return sorted(s)

    # ---------------------------------------------------------------- JDF
    @staticmethod
    def _ann(t, r, td=NONE):
        a = []
        if t != NONE:
            a.append('type = %s' % NAMES[t])
        if r != NONE:
            a.append('type_remote = %s' % NAMES[r])
        if td != NONE:
            a.append('type_data = %s' % NAMES[td])
        return ('  [' + ' '.join(a) + ']') if a else ''

    def jdf(self):
        n = self.name
        o = []
        o.append('extern "C" %{\n#include "parsec.h"\n#include "parsec/data_distribution.h"\n#include "parsec/data_internal.h"\n'
                 'void c18_prod(int k, void *A, parsec_data_copy_t *copy);\n'
                 'void c18_view(int cls, int k, int t, int decl, void *A, parsec_data_copy_t *copy);\n'
                 'parsec_arena_datatype_t *c18_adt(int id);\n'
                 'typedef parsec_taskpool_t *(*c18_make_fn)(parsec_data_collection_t *dc, int nt);\n'
                 'typedef void (*c18_unmake_fn)(parsec_taskpool_t *tp);\n'
                 'int c18_rt_main(int argc, char **argv, c18_make_fn mk, c18_unmake_fn unmk);\n%}\n')
        o.append('descA [type = "parsec_data_collection_t*"]\nNT    [type = int]\n')
        o.append('PROD(k)\nk = 0 .. NT-1\n: descA(k)\nRW A <- descA(k)%s' % self._ann(self.pt, NONE, self.ptd))
        for i, c in enumerate(self.cons):
            o.append('     -> A C%d(k, 0 .. %d)%s' % (i, c.fan - 1, self._ann(c.ot, c.orr)))
        o.append('BODY\n{\n    c18_prod(k, A, this_task->data._f_A.data_in);\n}\nEND\n')
        for i, c in enumerate(self.cons):
            o.append('C%d(k, t)\nk = 0 .. NT-1\nt = 0 .. %d\n: descA(k + %d)\nREAD A <- A PROD(k)%s' % (i, c.fan - 1, c.shift, self._ann(c.it, c.ir)))
            o.append('BODY\n{\n    c18_view(%d, k, t, %d, A, this_task->data._f_A.data_in);\n}\nEND\n' % (i, c.decl()))
        o.append('extern "C" %{')
        o.append('static parsec_taskpool_t *mk(parsec_data_collection_t *dc, int nt)\n{\n    parsec_%s_taskpool_t *tp = parsec_%s_new(dc, nt);' % (n, n))
        for t in self.used_types():
            o.append('    tp->arenas_datatypes[PARSEC_%s_%s_ADT_IDX] = *c18_adt(%d);' % (n, NAMES[t], t))
        o.append('    return &tp->super;\n}\nstatic void unmk(parsec_taskpool_t *tp) { (void)tp; }\n'
                 'int main(int argc, char **argv) { return c18_rt_main(argc, argv, mk, unmk); }\n%}\n')
        return '\n'.join(o)


def size(shape, mb, nb):
    return sum(1 for j in range(nb) for i in range(mb) if region(shape, i, j))
