"""Common machinery for /verif checks (see DESIGN.md section 2).

Every check = Lean theorems about a model (lake build + axiom audit)
            + correspondence run of the model's executable definitions against /repo's
              current working tree (C harness vs compiled Lean driver)
            + executable property oracle evaluated on the implementation's own outputs.
"""
import os, sys, json, subprocess, time, fcntl, re, contextlib, shutil, glob, hashlib

ROOT = os.path.dirname(os.path.dirname(os.path.abspath(__file__)))
REPO = os.environ.get('PARSEC_REPO', '/repo')
WORK = os.path.join(ROOT, '.work')
LEAN = os.path.join(ROOT, 'lean')
ALLOWED_AXIOMS = {'propext', 'Classical.choice', 'Quot.sound'}
BANNED = ['sorry', 'admit', 'native_decide', 'bv_decide', 'implemented_by', 'unsafe ', 'maxHeartbeats 0']
MPI_ENV = {'OMPI_ALLOW_RUN_AS_ROOT': '1', 'OMPI_ALLOW_RUN_AS_ROOT_CONFIRM': '1',
           'OMPI_MCA_rmaps_base_oversubscribe': '1', 'OMPI_MCA_btl_vader_single_copy_mechanism': 'none'}

TRUSTED_BASE = [
    'Lean 4.33.0 kernel (theorems re-checked by lake build on every run; leanchecker in the thorough tier)',
    'axioms reported by #print axioms on every property theorem (allowed: propext, Classical.choice, Quot.sound)',
    'Lean compiler + runtime for the executable driver pv_<id> (runs the same definitions the theorems are about)',
    'the C harness under /verif/harness and the hooks guarded by PARSEC_VERIF (code we wrote; they choose inputs/schedules and observe results)',
    'the correspondence relation is differential testing: its strength is bounded by the generators whose distribution is reported',
    'gcc 12, glibc, Open MPI 4.1.4, the Linux kernel',
]


def log(*a):
    print(*a, file=sys.stderr, flush=True)


def sh(cmd, cwd=None, input=None, timeout=None, env=None):
    e = dict(os.environ)
    if env:
        e.update(env)
    try:
        p = subprocess.run(cmd, cwd=cwd, input=input, capture_output=True, text=True, timeout=timeout,
                           env=e, shell=isinstance(cmd, str), errors='replace')
        return p.returncode, p.stdout, p.stderr
    except subprocess.TimeoutExpired as ex:
        out = ex.stdout if isinstance(ex.stdout, str) else (ex.stdout or b'').decode(errors='replace')
        err = ex.stderr if isinstance(ex.stderr, str) else (ex.stderr or b'').decode(errors='replace')
        return 124, out, err + '\n[timeout after %ss]' % timeout


@contextlib.contextmanager
def locked(name):
    os.makedirs(os.path.join(WORK, 'locks'), exist_ok=True)
    f = open(os.path.join(WORK, 'locks', name), 'w')
    fcntl.flock(f, fcntl.LOCK_EX)
    try:
        yield
    finally:
        fcntl.flock(f, fcntl.LOCK_UN)
        f.close()


# ------------------------------------------------------------------ PRNG (same stream as harness/common/pv.h)
class Rng:
    M = (1 << 64) - 1

    def __init__(self, seed):
        self.s = seed & self.M

    def next(self):
        self.s = (self.s + 0x9E3779B97F4A7C15) & self.M
        z = self.s
        z = ((z ^ (z >> 30)) * 0xBF58476D1CE4E5B9) & self.M
        z = ((z ^ (z >> 27)) * 0x94D049BB133111EB) & self.M
        return z ^ (z >> 31)

    def below(self, n):
        return self.next() % n if n > 0 else 0

    def range(self, lo, hi):  # inclusive
        return lo + self.below(hi - lo + 1)

    def choice(self, l):
        return l[self.below(len(l))]

    def chance(self, num, den):
        return self.below(den) < num

    def fork(self, k):
        return Rng(self.s ^ ((k + 1) * 0xD1B54A32D192ED03 & self.M))


# ------------------------------------------------------------------ Lean side
def lean_build(targets):
    """lake build of the given targets; returns (ok, log)."""
    with locked('lake'):
        sh([os.path.join(ROOT, 'bin', 'gen-index')])
        rc, out, err = sh(['lake', 'build'] + list(targets), cwd=LEAN, timeout=3600)
    return rc == 0, (out + err)


def strip_comments(src):
    # remove /- ... -/ (nested) and -- comments
    out = []
    i = 0
    depth = 0
    n = len(src)
    while i < n:
        if src.startswith('/-', i):
            depth += 1
            i += 2
        elif depth > 0 and src.startswith('-/', i):
            depth -= 1
            i += 2
        elif depth > 0:
            i += 1
        elif src.startswith('--', i):
            j = src.find('\n', i)
            i = n if j < 0 else j
        else:
            out.append(src[i])
            i += 1
    return ''.join(out)


def source_audit():
    """grep every Lean source of the project for banned constructs (outside comments)."""
    hits = []
    files = glob.glob(os.path.join(LEAN, 'ParsecVerif', '**', '*.lean'), recursive=True) + \
        glob.glob(os.path.join(LEAN, 'Driver', '*.lean'))
    for f in sorted(files):
        code = strip_comments(open(f).read())
        for b in BANNED:
            for m in re.finditer(re.escape(b) if b.endswith(' ') or ' ' in b else r'\b' + re.escape(b) + r'\b', code):
                hits.append('%s: %s' % (os.path.relpath(f, ROOT), b.strip()))
        for m in re.finditer(r'^\s*axiom\s', code, re.M):
            hits.append('%s: axiom' % os.path.relpath(f, ROOT))
    return len(files), hits


def lean_audit(prop, module, theorems):
    """#print axioms + #check for every property theorem.  Returns (records, problems)."""
    d = os.path.join(WORK, 'audit')
    os.makedirs(d, exist_ok=True)
    f = os.path.join(d, prop + '.lean')
    with open(f, 'w') as fh:
        fh.write('import %s\n' % module)
        for t in theorems:
            fh.write('#check @%s\n#print axioms %s\n' % (t, t))
    with locked('lake'):
        rc, out, err = sh(['lake', 'env', 'lean', f], cwd=LEAN, timeout=1200)
    text = out + err
    recs, problems = [], []
    for t in theorems:
        short = t
        m = re.search(r"'%s' depends on axioms: \[([^\]]*)\]" % re.escape(t), text, re.S)
        m0 = re.search(r"'%s' does not depend on any axioms" % re.escape(t), text)
        mc = re.search(r"^@?%s : (.*?)(?=\n'%s')" % (re.escape(t), re.escape(t)), text, re.S | re.M)
        stmt = re.sub(r'\s+', ' ', mc.group(1)).strip() if mc else None
        if m:
            ax = [a.strip() for a in m.group(1).replace('\n', ' ').split(',') if a.strip()]
        elif m0:
            ax = []
        else:
            problems.append('theorem %s: not found / not checked (%s)' % (t, text.strip()[:300]))
            recs.append({'theorem': t, 'checked': False})
            continue
        bad = [a for a in ax if a not in ALLOWED_AXIOMS]
        if bad:
            problems.append('theorem %s depends on non-accepted axioms %s' % (t, bad))
        recs.append({'theorem': t, 'checked': not bad, 'axioms': ax, 'statement': stmt})
    if rc != 0 and not problems:
        problems.append('audit file failed: ' + text.strip()[:500])
    return recs, problems


def driver(name):
    return os.path.join(LEAN, '.lake', 'build', 'bin', name)


# ------------------------------------------------------------------ builds of /repo
def repo_build(cfg='verif', targets=('parsec', 'parsec-ptgpp')):
    """(Re)build /repo's current working tree out-of-tree with the hooks on.  Incremental."""
    b = os.path.join(WORK, 'build-' + cfg + ('' if REPO == '/repo' else '-' + hashlib.md5(REPO.encode()).hexdigest()[:8]))
    flags = '-Wno-error -DPARSEC_VERIF'
    extra = []
    if cfg == 'verif-prof':
        extra = ['-DPARSEC_PROF_TRACE=ON']
    with locked('build-' + cfg):
        if not os.path.exists(os.path.join(b, 'build.ninja')):
            os.makedirs(b, exist_ok=True)
            rc, out, err = sh(['cmake', '-G', 'Ninja', '-S', REPO, '-B', b, '-DCMAKE_BUILD_TYPE=RelWithDebInfo',
                               '-DCMAKE_C_FLAGS=' + flags, '-DBUILD_TESTING=OFF'] + extra, timeout=1800)
            if rc != 0:
                return None, 'cmake failed:\n' + out[-3000:] + err[-3000:]
        rc, out, err = sh(['ninja', '-C', b] + list(targets), timeout=3600)
        if rc != 0:
            return None, 'ninja failed:\n' + out[-6000:] + err[-3000:]
    return b, ''


_mpi_flags = {}


def mpi_flags():
    if not _mpi_flags:
        _mpi_flags['c'] = sh(['mpicc', '--showme:compile'])[1].split()
        _mpi_flags['l'] = sh(['mpicc', '--showme:link'])[1].split()
    return _mpi_flags['c'], _mpi_flags['l']


def cc_harness(src, out, build, extra=(), sanitize=False, link_parsec=True, cxx=False):
    """Compile a harness against the current tree.  Returns (ok, log)."""
    mc, ml = mpi_flags()
    cmd = ['gcc', '-O1', '-g', '-mcx16', '-DBUILDING_PARSEC', '-DPARSEC_VERIF', '-Wno-unused-parameter',
           '-I' + os.path.join(ROOT, 'harness', 'common'),
           '-I' + REPO, '-I' + os.path.join(REPO, 'parsec', 'include'),
           '-I' + build, '-I' + os.path.join(build, 'parsec', 'include')] + mc
    if sanitize:
        cmd += ['-fsanitize=address,undefined', '-fno-sanitize-recover=all']
    cmd += list(extra) + [src, '-o', out]
    if link_parsec:
        cmd += ['-L' + os.path.join(build, 'parsec'), '-lparsec', '-Wl,-rpath,' + os.path.join(build, 'parsec')]
    cmd += ml + ['-lpthread', '-lm']
    rc, o, e = sh(cmd, timeout=600)
    return rc == 0, ' '.join(cmd) + '\n' + o + e


# ------------------------------------------------------------------ transcripts
def parse_transcript(text):
    """Harness transcript: `op words... => result` per line; `#stat k v` lines accumulate; other `#` lines ignored.
    `!viol <text>` lines are property-oracle failures observed by the harness on the real code.
    Returns (ops, results, stats, viols)."""
    ops, res, stats, viols = [], [], {}, []
    for ln in text.splitlines():
        if not ln.strip():
            continue
        if ln.startswith('!viol'):
            viols.append(ln[5:].strip())
            continue
        if ln.startswith('#'):
            w = ln.split()
            if len(w) >= 3 and w[0] == '#stat':
                try:
                    stats[w[1]] = stats.get(w[1], 0) + int(w[2])
                except ValueError:
                    pass
            continue
        if ' => ' in ln:
            a, b = ln.split(' => ', 1)
            ops.append(a.strip())
            res.append(b.strip())
        else:
            ops.append(ln.strip())
            res.append('<no-result>')
    return ops, res, stats, viols


def run_driver(name, ops, timeout=1800):
    rc, out, err = sh([driver(name)], input='\n'.join(ops) + '\n', timeout=timeout)
    lines = out.splitlines()
    return rc, lines, err


def split_cases(ops, res, mres=None):
    """Group a transcript into cases: a case starts at each op whose first word is `case`."""
    cases = []
    cur = None
    for i, o in enumerate(ops):
        if o.startswith('case') or cur is None:
            cur = {'ops': [], 'impl': [], 'model': []}
            cases.append(cur)
        cur['ops'].append(o)
        cur['impl'].append(res[i])
        if mres is not None:
            cur['model'].append(mres[i] if i < len(mres) else '<missing>')
    return cases


def differential(ctx, res, harness_cmd, driver_name, timeout=1800, env=None, stdin=None, tag=''):
    """Run the harness, feed its ops to the Lean driver, compare result lines.
    Returns (ops, impl, model, stats) and records disagreements / harness-side oracle failures in res."""
    rc, out, err = sh(harness_cmd, timeout=timeout, env=env, input=stdin)
    ops, impl, stats, viols = parse_transcript(out)
    for v in viols:
        res.violations.append({'key': v, 'what': v, 'harness': ' '.join(map(str, harness_cmd)), 'seed': ctx.seed})
    if rc != 0:
        # a crash/abort of the real code is a result: report it with the last operation reached
        res.violations.append({'key': 'harness-exit-%d%s' % (rc, tag), 'what': 'harness %s exited with %d after %d ops; last op: %s; stderr: %s' % (
            os.path.basename(str(harness_cmd[0])), rc, len(ops), ops[-1] if ops else None, err[-600:]), 'seed': ctx.seed})
    model = []
    if ctx.driver_ok and ops:
        rcd, model, derr = run_driver(driver_name, ops, timeout=timeout)
        if rcd != 0:
            res.disagreements.append({'op': '<driver>', 'impl': '', 'model': 'driver exit %d: %s' % (rcd, derr[-300:])})
        res.disagreements += compare(ops, impl, model)[:50]
    elif not ctx.driver_ok:
        res.notes.append('model driver unavailable: correspondence not run, oracle only')
    res.evaluations += len(ops)
    return ops, impl, model, stats


def compare(ops, impl, model):
    """Line-by-line comparison.  Returns list of disagreements (index, op, impl, model)."""
    dis = []
    n = len(ops)
    for i in range(n):
        m = model[i] if i < len(model) else '<missing>'
        if impl[i] != m:
            dis.append({'index': i, 'op': ops[i], 'impl': impl[i], 'model': m})
    if len(model) > n:
        dis.append({'index': n, 'op': '<extra model output>', 'impl': '', 'model': model[n]})
    return dis


# ------------------------------------------------------------------ known findings
def known_findings(prop):
    p = os.path.join(ROOT, 'known_findings.json')
    if not os.path.exists(p):
        return []
    d = json.load(open(p))
    return [f for f in d.get('findings', []) if f.get('property') == prop]


# ------------------------------------------------------------------ result / verdict
class Result:
    def __init__(self):
        self.evaluations = 0
        self.nontrivial_keys = set()      # distinct non-trivial cases (canonical keys)
        self.rule = ''
        self.samples = []
        self.disagreements = []           # model vs implementation
        self.violations = []              # property fails on the implementation: dict(key, what, case)
        self.traces_validated = 0
        self.extra = {}                   # extra coverage keys (distributions...)
        self.notes = []
        self.infra_errors = []            # harness could not be built/run: the check cannot conclude

    def nontrivial(self, key):
        self.nontrivial_keys.add(key if isinstance(key, str) else json.dumps(key, sort_keys=True))


class Ctx:
    def __init__(self, prop, tier, seed):
        self.prop, self.tier, self.seed = prop, tier, seed
        self.t0 = time.time()
        self.run_dir = os.path.join(WORK, 'run', prop)
        shutil.rmtree(self.run_dir, ignore_errors=True)
        os.makedirs(self.run_dir, exist_ok=True)
        self.build = None
        self.driver_ok = False
        self.quick = tier == 'quick'

    def path(self, name):
        return os.path.join(self.run_dir, name)


def write_json(path, obj):
    os.makedirs(os.path.dirname(path), exist_ok=True)
    tmp = path + '.tmp'
    with open(tmp, 'w') as f:
        json.dump(obj, f, indent=1, sort_keys=False)
        f.write('\n')
    os.replace(tmp, path)


def run_check(plugin, tier, seed, replay=None):
    prop = plugin.PROP
    ctx = Ctx(prop, tier, seed)
    level = getattr(plugin, 'LEVEL', 'proof')
    theorems = list(plugin.THEOREMS)
    module = plugin.LEAN_MODULE
    drivers = list(getattr(plugin, 'DRIVERS', []))
    obligations = []
    problems = []       # reasons the proof side is not (fully) checked

    # 1. Lean: driver first (model files), then the property theorems.
    ok_d, log_d = lean_build(drivers) if drivers else (True, '')
    ctx.driver_ok = ok_d
    if not ok_d:
        problems.append('lean driver/model build failed: ' + _errs(log_d))
    ok_p, log_p = lean_build([module] + list(getattr(plugin, 'EXTRA_MODULES', [])))
    if not ok_p:
        problems.append('lake build %s failed: %s' % (module, _errs(log_p)))
    nfiles, hits = source_audit()
    obligations.append({'obligation': 'source audit: no sorry/admit/axiom/native_decide/bv_decide/implemented_by/unsafe/maxHeartbeats 0 in %d Lean files' % nfiles,
                        'checked': not hits})
    if hits:
        problems.append('source audit hits: ' + '; '.join(hits[:10]))
    if ok_p:
        recs, aprob = lean_audit(prop, module, theorems)
        problems += aprob
        obligations += recs
    else:
        obligations += [{'theorem': t, 'checked': False} for t in theorems]
    if tier == 'thorough' and ok_p:
        with locked('lake'):
            rc, o, e = sh(['lake', 'env', 'leanchecker', module], cwd=LEAN, timeout=3600)
        obligations.append({'obligation': 'leanchecker %s' % module, 'checked': rc == 0})
        if rc != 0:
            problems.append('leanchecker failed: ' + (o + e)[-400:])

    # 2. code under test
    res = Result()
    if getattr(plugin, 'NEEDS_REPO_BUILD', True):
        ctx.build, blog = repo_build(getattr(plugin, 'BUILD_CFG', 'verif'), getattr(plugin, 'BUILD_TARGETS', ('parsec', 'parsec-ptgpp')))
        if ctx.build is None:
            res.infra_errors.append('build of /repo with hooks failed: ' + blog[-1500:])
    if not res.infra_errors:
        try:
            if replay:
                plugin.replay(ctx, res, json.load(open(replay)))
            else:
                plugin.run(ctx, res)
        except Exception as ex:  # a crashing plugin must not look like a pass
            import traceback
            res.infra_errors.append('check plugin raised: ' + traceback.format_exc()[-2000:])

    # 3. verdict
    known = known_findings(prop)
    known_keys = {k['key']: k for k in known}
    new_viol, known_hit = [], {}
    for v in res.violations:
        if v.get('key') in known_keys:
            known_hit[v['key']] = known_keys[v['key']]
        else:
            new_viol.append(v)
    for k, f in known_hit.items():
        print('KNOWN-FINDING: property=%s %s' % (prop, f.get('text', k)))
    discharged = sum(1 for o in obligations if o.get('checked'))
    exit_code = 0
    out_lines = []
    rp_dir = os.path.join(ROOT, 'replays')
    if new_viol:
        os.makedirs(rp_dir, exist_ok=True)
        rp = os.path.join(rp_dir, '%s-%s-seed%d.json' % (prop, tier, seed))
        write_json(rp, {'property': prop, 'kind': 'failing-input', 'violations': new_viol[:20],
                        'proof_problems': problems, 'disagreements': res.disagreements[:5]})
        out_lines.append('VIOLATION property=%s replay=%s' % (prop, rp))
        exit_code = 1
    elif problems or res.disagreements or res.infra_errors:
        os.makedirs(rp_dir, exist_ok=True)
        rp = os.path.join(rp_dir, '%s-%s-seed%d.json' % (prop, tier, seed))
        write_json(rp, {'property': prop, 'kind': 'no-failing-input-found',
                        'unchecked': problems, 'theorems': theorems,
                        'correspondence': 'model (lean/%s) vs implementation (%s)' % (module, getattr(plugin, 'IMPL', '/repo')),
                        'disagreements': res.disagreements[:20], 'infra_errors': res.infra_errors})
        out_lines.append('VIOLATION property=%s replay=%s no-failing-input-found' % (prop, rp))
        exit_code = 1

    # 4. evidence
    cov = {
        'obligations': len(obligations), 'discharged': discharged,
        'checker_cmd': 'cd lean && lake build %s && lake env lean <#print axioms %s.*>%s' % (
            module, prop, ' && lake env leanchecker ' + module if tier == 'thorough' else ''),
        'trusted_base': TRUSTED_BASE + list(getattr(plugin, 'TRUSTED_EXTRA', [])),
        'obligation_list': obligations,
        'evaluations': res.evaluations, 'distinct_nontrivial': len(res.nontrivial_keys),
        'rule': res.rule, 'samples': res.samples[:8] if res.samples else [o for o in obligations[:3]],
        'traces_validated_against_impl': res.traces_validated,
        'disagreements': len(res.disagreements),
        'known_findings_reproduced': sorted(known_hit.keys()),
    }
    cov.update(res.extra)
    ev = {'property_id': prop, 'tier': tier, 'seed': seed, 'level': level, 'coverage': cov,
          'assumptions': list(getattr(plugin, 'ASSUMPTIONS', [])) + res.notes,
          'wall_s': round(time.time() - ctx.t0, 2), 'violations': len(new_viol) + (1 if exit_code and not new_viol else 0)}
    write_json(os.path.join(ROOT, 'evidence', prop + '.json'), ev)
    for l in out_lines:
        print(l)
    log('[%s] tier=%s seed=%d obligations=%d/%d evaluations=%d nontrivial=%d disagreements=%d violations=%d known=%d wall=%.1fs%s' % (
        prop, tier, seed, discharged, len(obligations), res.evaluations, len(res.nontrivial_keys),
        len(res.disagreements), len(new_viol), len(known_hit), time.time() - ctx.t0,
        (' PROBLEMS: ' + ' | '.join(problems + res.infra_errors)[:1500]) if (problems or res.infra_errors) else ''))
    return exit_code


def _errs(text):
    ls = [l for l in text.splitlines() if 'error' in l.lower()]
    return ' ; '.join(ls[:6])[:1200]


# ------------------------------------------------------------------ scripted (stateful) differential runs
def run_script(exe, driver_name, cases, env=None, timeout=1800, use_driver=True, harness_args=()):
    """cases: list of op-line lists.  Runs harness and driver on `case k` + ops for all cases.
    Returns list of dicts {ops, impl, model, crashed}."""
    lines = []
    bounds = []
    for k, c in enumerate(cases):
        bounds.append(len(lines))
        lines.append('case %d' % k)
        lines += list(c)
    text = '\n'.join(lines) + '\n'
    rc, out, err = sh([exe] + list(harness_args), input=text, timeout=timeout, env=env)
    ops, impl, stats, viols = parse_transcript(out)
    model = []
    if use_driver:
        rcd, model, derr = run_driver(driver_name, lines, timeout=timeout)
    results = []
    for k, c in enumerate(cases):
        lo = bounds[k]
        hi = bounds[k + 1] if k + 1 < len(cases) else len(lines)
        r = {'ops': lines[lo + 1:hi], 'impl': impl[lo + 1:hi] if len(impl) > lo else [], 'model': model[lo + 1:hi] if use_driver else None,
             'crashed': False}
        if len(impl) < hi:   # harness died inside (or before) this case
            r['crashed'] = len(impl) >= lo or (k == 0)
            r['impl'] = impl[lo + 1:hi] if len(impl) > lo else []
            r['stderr'] = err[-800:]
            r['rc'] = rc
        results.append(r)
    return results, stats, viols, (rc, err)


def ddmin(items, failing, max_tests=400):
    """Delta debugging: minimal sublist of `items` for which failing(sublist) is True."""
    n = 2
    tests = 0
    cur = list(items)
    while len(cur) >= 2 and tests < max_tests:
        chunk = max(1, len(cur) // n)
        subsets = [cur[i:i + chunk] for i in range(0, len(cur), chunk)]
        reduced = False
        for i in range(len(subsets)):
            comp = [x for j, sset in enumerate(subsets) if j != i for x in sset]
            tests += 1
            if comp and failing(comp):
                cur = comp
                n = max(n - 1, 2)
                reduced = True
                break
        if not reduced:
            if n >= len(cur):
                break
            n = min(len(cur), n * 2)
    return cur


def case_disagrees(exe, driver_name, ops, env=None):
    rs, _, _, _ = run_script(exe, driver_name, [ops], env=env, timeout=120)
    r = rs[0]
    return r['crashed'] or r['impl'] != r['model'][:len(r['impl'])] or len(r['impl']) != len(r['ops'])
