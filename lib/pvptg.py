"""Shared harness for checks built on the PTG (JDF) language layer (C01 C23; later C02 C05 C15 C16 C22).

   gen/ptg_gen.py  --JDF text-->  parsec-ptgpp (current tree)  -->  gcc + harness/ptg_rt.c + libparsec  -->  run
                   --serialisation-->  pv_PTG (compiled Lean model)  <--  the run's transcript (same line protocol)

See docs/notes/PTG.md for the transcript format and how to extend (body behaviours, several ranks)."""
import os, sys, subprocess, concurrent.futures, hashlib
import pv
sys.path.insert(0, os.path.join(pv.ROOT, 'gen'))
import ptg_gen

BACKENDS = ['dynamic-hash-table', 'index-array']
SCHEDS = ['lfq', 'ap', 'rnd', 'gd', 'ip', 'lhq', 'ltq', 'll', 'llp', 'pbq', 'spq']


def ptgpp(build):
    return os.path.join(build, 'parsec', 'interfaces', 'ptg', 'ptg-compiler', 'parsec-ptgpp')


def cflags(build):
    mc, ml = pv.mpi_flags()
    inc = ['-I' + os.path.join(pv.ROOT, 'harness'), '-I' + os.path.join(pv.ROOT, 'harness', 'common'), '-I' + pv.REPO,
           '-I' + os.path.join(pv.REPO, 'parsec', 'include'), '-I' + build, '-I' + os.path.join(build, 'parsec', 'include')] + mc
    link = ['-L' + os.path.join(build, 'parsec'), '-lparsec', '-Wl,-rpath,' + os.path.join(build, 'parsec')] + ml + ['-lpthread', '-lm']
    return inc, link


def build_rt(ctx):
    """compile harness/ptg_rt.c once per run; returns (object path, error)"""
    obj = ctx.path('ptg_rt.o')
    if os.path.exists(obj):
        return obj, ''
    inc, _ = cflags(ctx.build)
    rc, o, e = pv.sh(['gcc', '-O1', '-g', '-mcx16', '-DPARSEC_VERIF', '-c', os.path.join(pv.ROOT, 'harness', 'ptg_rt.c'), '-o', obj] + inc, timeout=300)
    return (obj, '') if rc == 0 else (None, (o + e)[-1500:])


def build_one(ctx, prog, backend, rt_obj):
    """ptgpp -> gcc -> link.  Returns (exe or None, log).  Name of the generated unit = program name."""
    d = ctx.path('%s-%s' % (prog.name, 'ht' if backend == BACKENDS[0] else 'ia'))
    os.makedirs(d, exist_ok=True)
    jdf = os.path.join(d, prog.name + '.jdf')
    open(jdf, 'w').write(prog.jdf())
    rc, o, e = pv.sh([ptgpp(ctx.build), '--noline', '-E', '--Wremoteref', '--dep-management', backend, '-i', jdf, '-o', prog.name], cwd=d, timeout=120)
    if rc != 0 or not os.path.exists(os.path.join(d, prog.name + '.c')):
        return None, 'ptgpp failed (rc=%d): %s' % (rc, (o + e)[-1200:])
    inc, link = cflags(ctx.build)
    exe = os.path.join(d, prog.name)
    rc, o, e = pv.sh(['gcc', '-O0', '-g', '-mcx16', '-DPARSEC_VERIF', '-w', os.path.join(d, prog.name + '.c'), rt_obj, '-o', exe] + inc + link, timeout=300)
    if rc != 0:
        return None, 'gcc failed: ' + (o + e)[-1500:]
    return exe, ''


def build_many(ctx, progs, backends, jobs=8, pairs=None):
    """{(prog.name, backend): (exe, log)} — compiles in parallel (each is ~2-3 s).  pairs = explicit [(prog, backend)]"""
    rt, err = build_rt(ctx)
    if rt is None:
        return None, 'ptg_rt.c: ' + err
    out = {}
    with concurrent.futures.ThreadPoolExecutor(max_workers=jobs) as ex:
        futs = {ex.submit(build_one, ctx, p, b, rt): (p.name, b) for (p, b) in (pairs if pairs is not None else [(p, b) for p in progs for b in backends])}
        for f in concurrent.futures.as_completed(futs):
            out[futs[f]] = f.result()
    return out, ''


def run_exe(exe, g, threads=1, sched=None, keyfile=None, timeout_ms=20000, extra_env=None, ranks=1, tiles=16):
    """run one compiled program; returns (rc, transcript text(s), stderr).  ranks > 1: mpiexec, one transcript per rank."""
    env = dict(pv.MPI_ENV)
    if ranks == 1:
        # singleton MPI_Init without the runtime daemon and with the loopback transport only (7 s -> 1.5 s on a loaded machine)
        env.update({'OMPI_MCA_ess_singleton_isolated': '1', 'OMPI_MCA_btl': 'self', 'OMPI_MCA_pml': 'ob1'})
    env['PTG_TIMEOUT_MS'] = str(timeout_ms)
    if sched:
        env['PARSEC_MCA_mca_sched'] = sched
    if extra_env:
        env.update(extra_env)
    args = [exe, '-t', str(threads), '-g', ','.join(str(x) for x in g), '-n', str(tiles)]
    if keyfile:
        args += ['-k', keyfile]
    if ranks == 1:
        import time
        for attempt in range(6):
            rc, o, e = pv.sh(args, env=env, timeout=timeout_ms / 1000.0 + 240)
            # MPI_Init itself can fail on a heavily oversubscribed machine (before any PaRSEC code runs): retry, never a result
            if rc != 0 and not o and 'MPI_Init' in e and 'error occurred' in e:
                time.sleep(1 + attempt)
                continue
            break
        return rc, o, e
    outp = exe + '.out'
    xs = []
    for k in env:
        xs += ['-x', k]
    rc, o, e = pv.sh(['mpiexec', '--oversubscribe', '-n', str(ranks)] + xs + args + ['-o', outp], env=env, timeout=timeout_ms / 1000.0 + 300)
    texts = []
    for r in range(ranks):
        f = '%s.%d' % (outp, r)
        texts.append(open(f).read() if os.path.exists(f) else '')
    return rc, texts, e


class Model:
    """one pv_PTG process per query batch (the driver is a stdin/stdout filter)"""

    def __init__(self, prog, g):
        self.head = ['prog ' + prog.ser(g)]

    def ask(self, ops, timeout=600):
        rc, lines, err = pv.run_driver('pv_PTG', self.head + list(ops), timeout=timeout)
        if rc != 0 or len(lines) < 1 + len(ops):
            raise RuntimeError('pv_PTG failed rc=%s: %s / %s' % (rc, err[-300:], lines[:2]))
        if not lines[0].startswith('ok'):
            raise RuntimeError('pv_PTG rejected the program serialisation: ' + lines[0])
        return lines[1:]


def parse_space(line):
    line = line.strip()
    if not line:
        return []
    return [tuple(int(x) for x in part.split()) for part in line.split(' ; ') if part.strip()]


def model_spaces(prog, g):
    """the model's `space` of every class (lists of full local assignments, internal_init order)"""
    m = Model(prog, g)
    lines = m.ask(['space %d' % c for c in range(len(prog.classes))])
    return [parse_space(l) for l in lines]


def write_keyfile(path, spaces, extra=()):
    with open(path, 'w') as f:
        for c, sp in enumerate(spaces):
            for a in sp:
                f.write('%d %s\n' % (c, ' '.join(str(x) for x in a)))
        for c, a in extra:
            f.write('%d %s\n' % (c, ' '.join(str(x) for x in a)))


def events_of(ops):
    """[(kind, cls, env tuple, thread)] from transcript op strings `B cls l.. / th v..`"""
    out = []
    for o in ops:
        w = o.split()
        if not w or w[0] not in ('B', 'E'):
            continue
        i = w.index('/') if '/' in w else len(w)
        out.append((w[0], int(w[1]), tuple(int(x) for x in w[2:i]), int(w[i + 1]) if i + 1 < len(w) else -1))
    return out
