"""Shared machinery of the runtime-level PTG checks C01 (second half), C02, C16.

   * program set: corpus + random data-valid programs (gen/ptg_gen.py, datasafe mode), the same for the three checks at a
     given seed, compiled once into a cache under .work/ptgcache keyed by (JDF text, back-end, harness sources, repo HEAD,
     working-tree diff of the repository);
   * independent Python semantics written from the language definition and the property statements: `py_copies`
     (which copy a flow holds), `py_seq` (a sequential execution of the program in enumeration order), `py_valid`
     (data-race / write-back / named-value validity of a program), `again_count` (mirror of harness/ptg_rt.c);
   * transcript -> ops of the Lean driver pv_PTGRT (trace acceptor = dataflow machine on graphOf p, data = heapOfLog).
"""
import os, sys, json, hashlib, subprocess, shutil, re, concurrent.futures
import pv, pvptg, ptg_gen
from ptg_gen import ev

TILES = 16384
M64 = (1 << 64) - 1
CHUNKS = [1, 2, 3, 7, 64, 256]
ITERS = [0, 1, 2, 3, 7, 64, 256]      # task_startup_iter = 0 is accepted by the runtime (`reserved` then never doubles)


# ------------------------------------------------------------------ AGAIN answers (mirror of ptg_again_hash / ptg_again_count)
def again_hash(seed, cls, loc):
    z = (seed * 0x9E3779B97F4A7C15 + (cls + 1) * 0x632BE59BD9B4E019) & M64
    for v in loc:
        z = ((z ^ (v & 0xffffffff)) * 0xD1B54A32D192ED03) & M64
        z ^= z >> 29
    z = ((z ^ (z >> 30)) * 0xBF58476D1CE4E5B9) & M64
    z = ((z ^ (z >> 27)) * 0x94D049BB133111EB) & M64
    return z ^ (z >> 31)


def again_count(spec, cls, loc):
    """spec = (seed, percent, maxk) or None"""
    if not spec:
        return 0
    seed, pct, maxk = spec
    z = again_hash(seed, cls, list(loc)[:8])
    if (z >> 16) % 100 >= pct:
        return 0
    return 1 + (z >> 40) % maxk


# ------------------------------------------------------------------ independent semantics
def mix(h, x):
    return (h * 31 + (x & 0xffffffff)) % 1000003


def body_value(cls, f, loc, ins):
    h = mix(mix(17, cls), f)
    for v in loc:
        h = mix(h, v)
    for v in ins:
        h = mix(h, v)
    return h


def instances(prog, g):
    """all instances (class, env) in enumeration order: class index, then loop order of the declaration"""
    out = []
    for ci in range(len(prog.classes)):
        out += [(ci, e) for e in prog.enum(ci, g)]
    return out


def first_active(d_list, g, env):
    for d in d_list:
        t = d['t'] if d['g'] is None or ev(d['g'], g, list(env)) != 0 else d['f']
        if t is not None:
            return t
    return None


def by_params(prog, g):
    m = {}
    for (ci, e) in instances(prog, g):
        m[(ci, ptg_gen.params_of(prog, ci, e))] = e
    return m


def named_instance(prog, g, env, t, bp):
    """the instance a task reference names (first one if an argument is a range)"""
    vals = []
    for a in t[3]:
        vals.append(ev(a[1], g, list(env)))
    e = bp.get((t[1], tuple(vals)))
    return None if e is None else (t[1], e)


def py_copies(prog, g, tiles=TILES):
    """{instance: [copy per flow]}: ('T', tile) the collection's own copy, ('N', instance, flow) a fresh copy, None.
    A flow fed by a task holds the very copy that task's flow holds (no private copy is made)."""
    bp = by_params(prog, g)
    cp, isnew = {}, {}
    for inst in instances(prog, g):
        ci, env = inst
        row, nrow = [], []
        for fi, f in enumerate(prog.classes[ci]['flows']):
            c, n = None, False
            if f['acc'] != 'CTL':
                t = first_active(f['ins'], g, env)
                if t is not None:
                    if t[0] == 't':
                        src = named_instance(prog, g, env, t, bp)
                        if src is not None and src in cp:
                            c = cp[src][t[2]]
                    elif t[0] == 'm':
                        c = ('T', ev(t[1], g, list(env)) % tiles)
                    elif t[0] == 'new':
                        c, n = ('N', inst, fi), True
            row.append(c); nrow.append(n)
        cp[inst], isnew[inst] = row, nrow
    return cp, isnew


def writebacks(prog, g, inst, copies, tiles=TILES):
    """[(flow, tile)]: active `-> ddesc(e)` outputs whose flow holds another copy than tile e's own"""
    ci, env = inst
    out = []
    for fi, f in enumerate(prog.classes[ci]['flows']):
        c = copies[inst][fi]
        if c is None:
            continue
        for d in f['outs']:
            t = d['t'] if d['g'] is None or ev(d['g'], g, list(env)) != 0 else d['f']
            if t is not None and t[0] == 'm':
                k = ev(t[1], g, list(env)) % tiles
                if c != ('T', k):
                    out.append((fi, k))
    return out


def py_seq(prog, g, tiles=TILES):
    """a sequential execution of the program: the bodies one at a time in enumeration order (a valid order: every
    dependency of a valid program goes forward in it).  Returns ({instance: (ins, outs, left)}, final tiles {tile: value})
    ins/outs: per flow value or None; left: per flow the content of the flow's copy when the body ended."""
    cp, isnew = py_copies(prog, g, tiles)
    heap = {}

    def rd(c):
        if c in heap:
            return heap[c]
        return 1000 + c[1] if c[0] == 'T' else 0
    res = {}
    for inst in instances(prog, g):
        ci, env = inst
        fl = prog.classes[ci]['flows']
        ins = []
        for fi, f in enumerate(fl):
            c = cp[inst][fi]
            if f['acc'] == 'CTL':
                ins.append(None); continue
            if c is not None and isnew[inst][fi]:
                heap[c] = 0
            ins.append(rd(c) if (c is not None and f['acc'] in ('R', 'RW')) else None)
        hin = [(v if v is not None else 0) for v, f in zip(ins, fl) if f['acc'] != 'CTL']
        outs = []
        for fi, f in enumerate(fl):
            c = cp[inst][fi]
            outs.append(body_value(ci, fi, env, hin) if (c is not None and f['acc'] in ('RW', 'W')) else None)
        for fi, v in enumerate(outs):
            if v is not None:
                heap[cp[inst][fi]] = v
        left = [rd(c) if c is not None else None for c in cp[inst]]
        for (fi, k) in writebacks(prog, g, inst, cp, tiles):
            heap[('T', k)] = rd(cp[inst][fi])
        res[inst] = (ins, outs, left)
    final = {c[1]: v for c, v in heap.items() if c[0] == 'T' and v != 1000 + c[1]}
    return res, final


def py_valid(prog, g, tiles=TILES):
    """Is the program valid for C02?  (written from the property statement: a valid program is one whose result does not
    depend on the order in which independent tasks run)
      race     two bodies touch one copy, one of them writes it (in place, by zeroing a fresh copy, or by a write-back into a
               tile), and no chain of dependencies orders them;
      async    the write-back `-> ddesc(e)` is executed later by the communication thread: every other task that writes the
               source copy, or touches tile e's own copy in its body, must come BEFORE the task that writes back;
      named    in the sequential execution every input fed by a task holds the value that task left in the named flow;
      multi    a data flow names more than one producer.
    Returns a list of problems (empty = valid)."""
    insts = instances(prog, g)
    ix = {t: i for i, t in enumerate(insts)}
    bp = by_params(prog, g)
    cp, isnew = py_copies(prog, g, tiles)
    n = len(insts)
    anc = [0] * n          # bit sets of ancestors
    probs = []
    for j, (ci, env) in enumerate(insts):
        m = 0
        for (pc, pp) in ptg_gen.declared_preds(prog, g, ci, env):
            e = bp.get((pc, pp))
            if e is None or (pc, e) not in ix or ix[(pc, e)] >= j:
                probs.append('edge'); continue
            i = ix[(pc, e)]
            m |= (1 << i) | anc[i]
        anc[j] = m
    if probs:
        return ['a dependency does not go forward in enumeration order (or names an instance outside the space)']
    reads, writes, wbs = [], [], []
    for inst in insts:
        ci, env = inst
        r, w = set(), set()
        for fi, f in enumerate(prog.classes[ci]['flows']):
            c = cp[inst][fi]
            if f['acc'] == 'CTL':
                continue
            tasks = [t for d in f['ins'] for t in [d['t'] if d['g'] is None or ev(d['g'], g, list(env)) != 0 else d['f']] if t is not None and t[0] == 't']
            if len(tasks) > 1 or any(a[0] == 'r' for t in tasks for a in t[3]):
                probs.append('multi')
            if c is None:
                continue
            if f['acc'] in ('R', 'RW') and not isnew[inst][fi]:
                r.add(c)
            if f['acc'] in ('RW', 'W') or isnew[inst][fi]:
                w.add(c)
        wb = writebacks(prog, g, inst, cp, tiles)
        for (fi, k) in wb:
            r.add(cp[inst][fi]); w.add(('T', k))
        reads.append(r); writes.append(w); wbs.append(wb)
    if 'multi' in probs:
        return ['a data flow names several producers']
    for i in range(n):
        for j in range(i + 1, n):
            if (writes[i] & (reads[j] | writes[j])) or (writes[j] & (reads[i] | writes[i])):
                if not (anc[j] >> i) & 1:
                    return ['race: %s and %s touch the same copy, one writes, no dependency chain orders them' % (
                        ptg_gen.inst_name(prog, *insts[i]), ptg_gen.inst_name(prog, *insts[j]))]
    for j, inst in enumerate(insts):
        for (fi, k) in wbs[j]:
            src = cp[inst][fi]
            for u, other in enumerate(insts):
                if u == j or (anc[j] >> u) & 1:
                    continue
                ci, env = other
                body_w = set(c for f2, c in enumerate(cp[other]) if c is not None and (prog.classes[ci]['flows'][f2]['acc'] in ('RW', 'W') or isnew[other][f2]))
                body_c = set(c for c in cp[other] if c is not None)
                if src in body_w or ('T', k) in body_c:
                    return ['async: %s writes back into tile %d while %s, not ordered before it, uses the copy or the tile' % (
                        ptg_gen.inst_name(prog, *inst), k, ptg_gen.inst_name(prog, *other))]
    res, _ = py_seq(prog, g, tiles)
    for inst in insts:
        ci, env = inst
        for fi, f in enumerate(prog.classes[ci]['flows']):
            if f['acc'] == 'CTL' or res[inst][0][fi] is None:
                continue
            t = first_active(f['ins'], g, env)
            if t is not None and t[0] == 't':
                src = named_instance(prog, g, env, t, bp)
                if src is None or res[src][2][t[2]] != res[inst][0][fi]:
                    return ['named: %s does not see in flow %d what its producer left' % (ptg_gen.inst_name(prog, *inst), fi)]
    return []


def accept_valid(prog):
    """generator filter: keep the vectors of globals for which the program is valid and not trivial"""
    keep = []
    for g in prog.gvecs:
        try:
            if not py_valid(prog, g):
                keep.append(g)
        except Exception:
            pass
    prog.gvecs = keep
    return bool(keep)


# ------------------------------------------------------------------ program set and build cache
def load_corpus(prop):
    d = os.path.join(pv.ROOT, 'corpus', prop)
    out = []
    if os.path.isdir(d):
        for f in sorted(os.listdir(d)):
            if f.endswith('.case'):
                p = ptg_gen.Program.from_case(open(os.path.join(d, f)).read())
                p.name = ('k%s' % prop[1:]) + f[:3]
                out.append(p)
    return out


def shared_programs(seed, n):
    """the random data-valid programs of a seed: identical for C01 / C02 / C16 (so that compiled programs are shared)"""
    rng = pv.Rng(seed).fork(777)
    k = (n * 2) // 5
    a = ptg_gen.gen_programs(rng, n - k, 'full', 'v', datasafe=True, accept=accept_valid)
    b = ptg_gen.gen_programs(rng.fork(4242), k, 'full', 'w', derived_params=False, datasafe=True, accept=accept_valid)
    return a + b


_repo_key = {}


def repo_key():
    """HEAD + hash of the working-tree diff of the repository under test"""
    if 'k' not in _repo_key:
        rc, head, _ = pv.sh(['git', '-C', pv.REPO, 'rev-parse', 'HEAD'])
        rc, diff, _ = pv.sh(['git', '-C', pv.REPO, 'diff', 'HEAD'])
        hs = hashlib.sha256()
        for f in ('harness/ptg_rt.c', 'harness/ptg_rt.h'):
            hs.update(open(os.path.join(pv.ROOT, f), 'rb').read())
        _repo_key['k'] = head.strip()[:16] + '-' + hashlib.sha256(diff.encode()).hexdigest()[:16] + '-' + hs.hexdigest()[:12]
    return _repo_key['k']


def cache_dir():
    d = os.path.join(pv.WORK, 'ptgcache')
    os.makedirs(d, exist_ok=True)
    return d


def build_cached(ctx, prog, backend):
    """(exe or None, log).  The unit is named after the hash of the JDF text so that it can be shared across checks."""
    text = prog.jdf()
    key = hashlib.sha256((text + '\n' + backend + '\n' + repo_key()).encode()).hexdigest()[:20]
    d = os.path.join(cache_dir(), key)
    exe = os.path.join(d, prog.name)
    okf = os.path.join(d, 'ok')
    if os.path.exists(okf) and os.path.exists(exe):
        os.utime(okf, None)
        return exe, 'cached'
    os.makedirs(d, exist_ok=True)
    with pv.locked('ptgcache-' + key):
        if os.path.exists(okf) and os.path.exists(exe):
            return exe, 'cached'
        rt = os.path.join(cache_dir(), 'ptg_rt-%s.o' % repo_key())
        if not os.path.exists(rt):
            with pv.locked('ptgcache-rt'):
                if not os.path.exists(rt):
                    inc, _ = pvptg.cflags(ctx.build)
                    tmp = rt + '.%d.tmp' % os.getpid()
                    rc, o, e = pv.sh(['gcc', '-O1', '-g', '-mcx16', '-DPARSEC_VERIF', '-c', os.path.join(pv.ROOT, 'harness', 'ptg_rt.c'), '-o', tmp] + inc, timeout=600)
                    if rc != 0:
                        return None, 'ptg_rt.c: ' + (o + e)[-1500:]
                    os.replace(tmp, rt)
        jdf = os.path.join(d, prog.name + '.jdf')
        open(jdf, 'w').write(text)
        rc, o, e = pv.sh([pvptg.ptgpp(ctx.build), '--noline', '-E', '--dep-management', backend, '-i', jdf, '-o', prog.name], cwd=d, timeout=300)
        if rc != 0 or not os.path.exists(os.path.join(d, prog.name + '.c')):
            return None, 'ptgpp failed (rc=%d): %s' % (rc, (o + e)[-1200:])
        inc, link = pvptg.cflags(ctx.build)
        rc, o, e = pv.sh(['gcc', '-O0', '-g', '-mcx16', '-DPARSEC_VERIF', '-w', os.path.join(d, prog.name + '.c'), rt, '-o', exe] + inc + link + ['-ldl'], timeout=600)
        if rc != 0:
            return None, 'gcc failed: ' + (o + e)[-1500:]
        open(okf, 'w').write(backend)
    return exe, 'built'


def prune_cache(max_entries=400):
    d = cache_dir()
    ent = [os.path.join(d, x) for x in os.listdir(d) if os.path.isdir(os.path.join(d, x))]
    if len(ent) <= max_entries:
        return
    import time
    ent = [p for p in ent if os.path.exists(os.path.join(p, 'ok')) or time.time() - os.path.getmtime(p) > 7200]      # never an entry being built
    ent.sort(key=lambda p: os.path.getmtime(os.path.join(p, 'ok')) if os.path.exists(os.path.join(p, 'ok')) else 0)
    for p in ent[:max(0, len(ent) - max_entries)]:
        shutil.rmtree(p, ignore_errors=True)


def build_all(ctx, pairs, jobs=6):
    """{(prog.name, backend): (exe, log)}"""
    out = {}
    with concurrent.futures.ThreadPoolExecutor(max_workers=jobs) as ex:
        futs = {ex.submit(build_cached, ctx, p, b): (p.name, b) for (p, b) in pairs}
        for f in concurrent.futures.as_completed(futs):
            try:
                out[futs[f]] = f.result()
            except Exception as e:
                out[futs[f]] = (None, 'build raised %r' % e)
    return out


# ------------------------------------------------------------------ runs and transcripts
def run_cfg(exe, g, cfg, timeout_ms=20000):
    """cfg = dict(sched, threads, iter, chunk, again=(seed, pct, maxk)|None, spin=bool)"""
    env = {'PARSEC_MCA_task_startup_iter': str(cfg['iter']), 'PARSEC_MCA_task_startup_chunk': str(cfg['chunk'])}
    if not cfg.get('teardown'):
        env['PTG_FAST_EXIT'] = '1'
    if cfg.get('again'):
        env['PTG_AGAIN'] = '%d,%d,%d' % tuple(cfg['again'])
    if cfg.get('spin'):
        env['PTG_BODY'] = 'spin'
    return pvptg.run_exe(exe, g, threads=cfg['threads'], sched=cfg['sched'], timeout_ms=timeout_ms, extra_env=env, tiles=TILES)


def parse_events(text):
    """transcript -> dict(events=[(kind, cls, env, thread, vals)], count, end, final={tile: value}, batches={cls: [[env..]..]})"""
    r = {'events': [], 'count': None, 'end': None, 'final': None, 'batches': {}}
    for ln in text.splitlines():
        if ln.startswith('#final'):
            r['final'] = {int(a): int(b) for a, b in (x.split(':') for x in ln.split()[1:])}
        elif ln.startswith('#batch'):
            head, _, body = ln.partition(':')
            w = head.split()
            cls = int(w[1])
            insts = [tuple(int(x) for x in part.split()) for part in body.split(';') if part.strip()]
            r['batches'].setdefault(cls, []).append(insts)
        elif ln[:2] in ('B ', 'E ', 'A '):
            op, _, res = ln.partition(' => ')
            w = op.split()
            i = w.index('/')
            vals = [None if x == '-' else int(x) for x in w[i + 2:]]
            r['events'].append((w[0], int(w[1]), tuple(int(x) for x in w[2:i]), int(w[i + 1]), vals))
        elif ln.startswith('count '):
            r['count'] = int(ln.split(' => ')[1])
        elif ln.startswith('end '):
            r['end'] = ln.split(' => ')[1].strip()
    return r


def pad(vals, n):
    vals = list(vals)[:n]
    return vals + [None] * (n - len(vals))


def fmt(vals):
    return ' '.join('-' if v is None else str(v) for v in vals)


def rt_ops(prog, g, tr, cfg, with_data=True):
    """ops for pv_PTGRT and the implementation's answers reconstructed from the transcript:
       B / A -> ok ;  E -> `ok in <seen at the matching begin> out <written>` ;  end ;  final (tiles) ; batches"""
    ops = ['prog ' + prog.ser(g), 'cfg %d %d %d' % (TILES, cfg['iter'], cfg['chunk'])]
    impl = ['ok %d' % len(prog.classes), 'ok']
    agains = {}
    for (k, c, env, th, vals) in tr['events']:
        if k == 'A':
            agains[(c, env)] = agains.get((c, env), 0) + 1
    for (c, env), k in sorted(agains.items()):
        ops.append('again %d %d %s' % (k, c, ' '.join(str(x) for x in env)))
        impl.append('ok')
    ops.append('go'); impl.append('ok')
    lastB = {}
    for (k, c, env, th, vals) in tr['events']:
        nf = len(prog.classes[c]['flows']) if 0 <= c < len(prog.classes) else 0
        ops.append('%s %d %s' % (k, c, ' '.join(str(x) for x in env)))
        if k == 'B':
            lastB[(c, env)] = vals
            impl.append('ok')
        elif k == 'A':
            impl.append('ok')
        else:
            impl.append('ok in %s out %s' % (fmt(pad(lastB.get((c, env), []), nf)), fmt(pad(vals, nf))) if with_data else 'ok')
    ops.append('end'); impl.append(tr['end'] or 'missing')
    if with_data and tr['final'] is not None:
        ops.append('final')
        impl.append(' '.join('%d:%d' % (t, v) for t, v in sorted(tr['final'].items())))
    return ops, impl


def batch_ops(prog, tr):
    ops, impl = [], []
    for c in range(len(prog.classes)):
        bs = tr['batches'].get(c, [])
        ops.append('nbatches %d' % c); impl.append(str(len(bs)))
        for k, b in enumerate(bs):
            ops.append('batch %d %d' % (c, k))
            impl.append(' ; '.join(' '.join(str(x) for x in e) for e in b))
    return ops, impl


def ask(ops, timeout=900):
    rc, lines, err = pv.run_driver('pv_PTGRT', ops, timeout=timeout)
    if rc != 0 or len(lines) < len(ops):
        raise RuntimeError('pv_PTGRT failed rc=%s after %d/%d lines: %s' % (rc, len(lines), len(ops), err[-300:]))
    return lines


def compare_rt(ops, impl, strip_data=False):
    """run the ops on the driver; list of disagreements (the `prog` line is shortened)"""
    model = ask(ops)
    if strip_data:
        model = [m.split(' in ')[0] if m.startswith('ok in ') else m for m in model]
    dis = pv.compare(ops, impl, model)
    for d in dis:
        if d['op'].startswith('prog '):
            d['op'] = d['op'][:80]
    return dis


def model_valid(prog, g, cfg=None):
    """the Lean side's verdict on the hypotheses of the theorems: dict(wf, racefree, asyncsafe, singlesrc)"""
    cfg = cfg or {'iter': 64, 'chunk': 256}
    out = ask(['prog ' + prog.ser(g), 'cfg %d %d %d' % (TILES, cfg['iter'], cfg['chunk']), 'valid', 'graph'])
    w = out[2].split()
    d = {w[i]: w[i + 1] == 'true' for i in range(0, len(w), 2)}
    d['graph'] = out[3]
    return d


# ------------------------------------------------------------------ sweeps (shared by checks/C02.py and checks/C16.py)
def has_derived_param(p):
    return any(l['kind'] == 'D' and l['param'] for c in p.classes for l in c['locals'])


def prepare(ctx, res, prop, progs, quick):
    """Lean-side validity of every (program, globals) + builds.  Returns [(prog, g, backend, exe)] and statistics."""
    import time
    t0 = time.time()
    pv.mpi_flags()          # fill the (thread-unsafe) cache before the pool starts
    pairs = [(p, b) for p in progs for b in pvptg.BACKENDS if b == pvptg.BACKENDS[0] or not has_derived_param(p)]
    built = build_all(ctx, pairs)
    pv.log('[%s] %d builds (%d cached) in %.1fs' % (prop, len(built), sum(1 for v in built.values() if v[1] == 'cached'), time.time() - t0))
    t0 = time.time()
    stats = {'valid': 0, 'invalid': 0, 'built': sum(1 for v in built.values() if v[1] == 'built'), 'cached': sum(1 for v in built.values() if v[1] == 'cached')}
    items = []
    for p in progs:
        gv = p.gvecs[:2] if quick else p.gvecs
        for g in gv:
            try:
                mv = model_valid(p, g)
                pyp = py_valid(p, g)
            except Exception as e:
                res.infra_errors.append('validity analysis of %s %s raised %r' % (p.name, g, e))
                continue
            ok = mv['wf'] and mv['racefree'] and mv['asyncsafe'] and mv['singlesrc'] and mv.get('named', True)
            if ok and pyp:
                res.disagreements.append({'op': 'valid', 'impl': 'independent analysis: ' + pyp[0], 'model': 'hypotheses of the theorems hold: %s' % mv,
                                          'case': json.loads(p.to_case({'gvecs': [list(g)]}))})
            if not ok and not pyp:
                # the generator only keeps programs its own analysis accepts: the Lean hypotheses must agree
                res.disagreements.append({'op': 'valid', 'impl': 'independent analysis accepts the program', 'model': str(mv),
                                          'case': json.loads(p.to_case({'gvecs': [list(g)]}))})
            stats['valid' if ok else 'invalid'] += 1
            if not ok:
                continue
            for (pp, b) in pairs:
                if pp is p:
                    exe, log = built[(p.name, b)]
                    if exe is None:
                        res.infra_errors.append('program %s does not build with %s: %s' % (p.name, b, log[-600:]))
                    else:
                        items.append((p, g, b, exe))
    pv.log('[%s] validity of %d (program, globals) pairs in %.1fs' % (prop, stats['valid'] + stats['invalid'], time.time() - t0))
    return items, stats


def startup_sweep(again_rng=None):
    """the re-entry logic of the startup generator on a class with many startup tasks: iter in {0,1,2,3} x chunk in {1,2,3,7}
    (every invocation returns AGAIN after a handful of tasks, `reserved` hardly ramps up; iter = 0 is the MCA value 0)"""
    out = []
    k = 0
    for it in (0, 1, 2, 3):
        for ch in (1, 2, 3, 7):
            cfg = {'sched': ['lfq', 'ap', 'gd', 'rnd'][k % 4], 'threads': [1, 4, 2, 8][k % 4], 'iter': it, 'chunk': ch, 'again': None, 'spin': False}
            if again_rng is not None and k % 2:
                cfg['again'] = (again_rng.range(1, 1 << 30), 60, 2)
            out.append(cfg); k += 1
    return out


def many_startup_program():
    """corpus/C16/001: one class, G0 + 1 startup instances (first vector of globals: 30 instances)"""
    p = ptg_gen.Program.from_case(open(os.path.join(pv.ROOT, 'corpus', 'C16', '001-many-startup.case')).read())
    p.name = 'k16001'
    return p


def interleave(groups):
    out, k = [], 0
    while any(k < len(gr) for gr in groups):
        out += [gr[k] for gr in groups if k < len(gr)]
        k += 1
    return out


def run_one(prog, g, exe, cfg, evaluate):
    """one run of a compiled program + evaluation.  {'n', 'fails', 'dis', 'crash', 'oneoff', 'stats'}"""
    r = {'n': 0, 'fails': [], 'dis': [], 'crash': None, 'oneoff': None, 'stats': {}}
    rc, out, err = run_cfg(exe, g, cfg)
    for _ in range(4):
        if not (rc == 127 or 'error while loading shared libraries' in err):
            break
        # libparsec.so is being relinked by a concurrent check (the repository changed): wait for that build, run again
        import time
        time.sleep(3)
        with pv.locked('build-verif'):
            pass
        rc, out, err = run_cfg(exe, g, cfg)
    if rc == 127 or 'error while loading shared libraries' in err:
        r['infra'] = 'the program could not be loaded: ' + err[-300:]
        return r
    if rc not in (0, 3) or not out.strip():
        msg = 'exit %s: %s' % (rc, err[-400:])
        again, tries = 0, 5
        for _ in range(tries):
            rc2, out2, err2 = run_cfg(exe, g, cfg)
            if rc2 not in (0, 3):
                again += 1
                break
        log = os.path.join(os.path.dirname(exe), 'crash-%s-%s.stderr' % (cfg['sched'], cfg['threads']))
        try:
            open(log, 'w').write(err)
        except OSError:
            pass
        if again:
            r['crash'] = msg + ' [reproduced]'
        else:
            r['oneoff'] = 'rc=%s cfg=%s not reproduced in %d re-runs; stderr in %s: %s' % (rc, cfg, tries, log, err[-200:])
        return r
    tr = parse_events(out)
    if (tr['end'] or '').startswith('hang'):
        # no body event for 20 s: a lost task — or 16 busy-waiting workers starved on an overloaded machine.  Run the same
        # configuration again with a 90 s idle limit: a lost task stays lost.
        rc2, out2, err2 = run_cfg(exe, g, cfg, timeout_ms=90000)
        tr2 = parse_events(out2)
        if rc2 == 0 and tr2['end'] == 'complete':
            r['stats']['slow_machine_timeouts'] = 1
            tr = tr2
    r['n'] = len(tr['events']) + 2
    try:
        evaluate(prog, g, cfg, tr, r)
    except Exception:
        import traceback
        r['dis'].append({'op': 'evaluate', 'impl': 'transcript of %d events' % len(tr['events']), 'model': 'evaluation raised: ' + traceback.format_exc()[-600:]})
    return r


def sweep(ctx, res, prop, work, evaluate, workers=5, stop_after=6):
    """work = [(prog, g, backend, exe, cfg)].  Fills res; returns the list of (work item, result)."""
    import time
    t0 = time.time()
    results, bad = [], 0
    with concurrent.futures.ThreadPoolExecutor(max_workers=workers) as ex:
        futs = [ex.submit(run_one, p, g, exe, cfg, evaluate) for (p, g, b, exe, cfg) in work]
        for w, f in zip(work, futs):
            if bad >= stop_after:
                f.cancel(); continue
            try:
                r = f.result()
            except concurrent.futures.CancelledError:
                continue
            except Exception as e:
                res.infra_errors.append('run %s %s raised %r' % (w[0].name, w[4], e)); continue
            if r.get('infra'):
                res.infra_errors.append(r['infra']); continue
            results.append((w, r))
            bad += bool(r['crash'] or r['fails'] or r['dis'])
    pv.log('[%s] %d runs in %.1fs' % (prop, len(results), time.time() - t0))
    hist = {'sched': {}, 'threads': {}, 'chunk': {}, 'backend': {}, 'again': {}}
    for (p, g, b, exe, cfg), r in results:
        res.evaluations += r['n']
        case = json.loads(p.to_case({'gvecs': [list(g)], 'config': cfg, 'backend': b}))
        for k, v in (('sched', cfg['sched']), ('threads', cfg['threads']), ('chunk', '%d/%d' % (cfg['iter'], cfg['chunk'])), ('backend', b),
                     ('again', 'on' if cfg.get('again') else 'off')):
            hist[k][str(v)] = hist[k].get(str(v), 0) + 1
        if r['oneoff']:
            res.extra.setdefault('unreproduced_crashes', []).append({'program': p.ser(g)[:200], 'what': r['oneoff']})
            res.notes.append('one unreproduced crash of a generated program (see coverage.unreproduced_crashes)')
            continue
        if r['crash']:
            res.violations.append({'key': 'crash:%s' % p.ser(g)[:300], 'what': 'generated program crashed: ' + r['crash'], 'case': case})
            continue
        for d in r['dis'][:3]:
            d = dict(d); d['case'] = case
            res.disagreements.append(d)
        if r['fails']:
            res.violations.append({'key': '%s:%s:%s' % (prop, json.dumps(cfg, sort_keys=True), p.ser(g)[:300]), 'what': r['fails'][0],
                                   'all_failures': r['fails'][:5], 'case': case})
        if not r['dis'] and not r['fails']:
            res.traces_validated += 1
        if r['n'] > 8:
            res.nontrivial('%s|%s|%s' % (p.ser(g), b, json.dumps(cfg, sort_keys=True)))
        if r['stats'].get('slow_machine_timeouts'):
            res.notes.append('a run hit the 20 s idle limit and completed when repeated with a 90 s limit (overloaded machine)')
        for k, v in r['stats'].items():
            res.extra.setdefault('run_stats', {})
            res.extra['run_stats'][k] = res.extra['run_stats'].get(k, 0) + v
    res.extra.setdefault('input_distribution', {})['configurations'] = hist
    return results


def cases_from_replay(data):
    """[(program, config or None, backend or None)] from a replay file written by the framework"""
    out = []
    for v in data.get('violations', []) + data.get('disagreements', []):
        if 'case' in v:
            p = ptg_gen.Program.from_case(v['case'])
            p.name = 'r%d' % len(out)
            out.append((p, v['case'].get('config'), v['case'].get('backend')))
    return out


# ------------------------------------------------------------------ oracles on a trace (independent of the Lean model)
def oracle_basic(prog, g, tr):
    """every declared instance ended exactly once, nothing else ran, announced count, completion"""
    fails = []
    decl = set(instances(prog, g))
    ended = {}
    for (k, c, env, th, vals) in tr['events']:
        if k == 'E':
            ended[(c, env)] = ended.get((c, env), 0) + 1
        if (c, env) not in decl:
            fails.append('an instance outside the declared space ran: class %d locals %s' % (c, list(env)))
            break
    for t in decl:
        if ended.get(t, 0) != 1:
            fails.append('%s completed %d time(s)' % (ptg_gen.inst_name(prog, *t), ended.get(t, 0)))
            break
    if tr['count'] is not None and tr['count'] != len(decl):
        fails.append('announced %s local tasks, the declared space has %d' % (tr['count'], len(decl)))
    if tr['end'] != 'complete':
        fails.append('taskpool did not complete: %s' % tr['end'])
    return fails


def oracle_order(prog, g, tr):
    """a task begins only after every producer it names has ended"""
    fails = []
    bp = by_params(prog, g)
    endpos = {}
    for i, (k, c, env, th, vals) in enumerate(tr['events']):
        if k == 'E':
            endpos.setdefault((c, env), i)
    for i, (k, c, env, th, vals) in enumerate(tr['events']):
        if k != 'B':
            continue
        for (pc, pp) in ptg_gen.declared_preds(prog, g, c, env):
            e = bp.get((pc, pp))
            ei = endpos.get((pc, e))
            if ei is None or ei > i:
                fails.append('%s began before its producer %s%s ended' % (ptg_gen.inst_name(prog, c, env), prog.classes[pc]['name'], list(pp)))
                return fails
    return fails
